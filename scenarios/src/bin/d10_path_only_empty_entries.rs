// D10 (C15/C07): PATH consisting only of empty entries (":").  Nothing can be looked up, so the launch must fail with
// an error; it must not report success for a program that was never started.
use subprocess::{Popen, PopenConfig};
fn main() {
    std::env::set_var("PATH", ":");
    match Popen::create(&["true"], PopenConfig::default()) {
        Err(e) => println!("ok: launch failed with: {}", e),
        Ok(mut p) => {
            let st = p.wait();
            println!("FAIL: create() returned Ok although no program was started; the 'child' ended with {:?}", st);
            std::process::exit(1);
        }
    }
}
