// D8 (C14): the second command of a pipeline cannot be started; starting the pipeline must return that error
// promptly.  The first command (cat) waits for end-of-file on a piped stdin that only the parent holds.
use std::time::{Duration, Instant};
use subprocess::{Exec, Redirection};
fn main() {
    std::thread::spawn(|| {
        std::thread::sleep(Duration::from_secs(4));
        println!("FAIL: Pipeline::popen() still has not returned after 4 s (it waits for `cat`, which waits for EOF on the stdin pipe the parent still holds)");
        std::process::exit(1);
    });
    let t = Instant::now();
    let r = (Exec::cmd("cat") | Exec::cmd("/nonexistent/program")).stdin(Redirection::Pipe).popen();
    assert!(r.is_err(), "the pipeline must fail to start");
    println!("ok: popen() returned the error after {:?}", t.elapsed());
}
