// D3 (C04): a child that writes continuously; read() with a 200 ms limit must come back shortly
// after 200 ms.  The program gives up (and reports failure) after 3 s.
use std::time::{Duration, Instant};
use subprocess::{Exec, Redirection};
fn main() {
    let mut comm = Exec::cmd("sh")
        .args(&["-c", "for i in 1 2 3 4 5 6 7 8; do yes & done; wait"])
        .stdout(Redirection::Pipe)
        .communicate()
        .unwrap()
        .limit_time(Duration::from_millis(200));
    std::thread::spawn(|| {
        std::thread::sleep(Duration::from_secs(3));
        println!("FAIL: read() with a 200 ms limit still running after 3 s");
        std::process::exit(1);
    });
    let t = Instant::now();
    let r = comm.read();
    let el = t.elapsed();
    let n = match &r { Ok((o, _)) => o.as_ref().map(|v| v.len()), Err(e) => e.capture.0.as_ref().map(|v| v.len()) };
    println!("read() returned after {:?}: err={:?}, {:?} bytes", el, r.as_ref().err().map(|e| e.kind()), n);
    if el > Duration::from_millis(300) { println!("FAIL: returned more than 100 ms after the 200 ms limit"); std::process::exit(1); }
    println!("ok");
}
