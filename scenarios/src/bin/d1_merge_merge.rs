// D1 (C05): Merge for both stdout and stderr is documented as invalid; Popen::create must refuse it with a
// logic error and must not start a process.
use subprocess::{Popen, PopenConfig, PopenError, Redirection};
fn main() {
    let marker = std::env::temp_dir().join(format!("verif-d1-{}", std::process::id()));
    let _ = std::fs::remove_file(&marker);
    let r = Popen::create(
        &["sh", "-c", &format!("echo started > {}", marker.display())],
        PopenConfig { stdout: Redirection::Merge, stderr: Redirection::Merge, ..Default::default() },
    );
    let verdict = match r {
        Err(PopenError::LogicError(m)) => { println!("ok: refused with LogicError({:?})", m); 0 }
        Err(e) => { println!("FAIL: refused, but not with a logic error: {:?}", e); 1 }
        Ok(mut p) => { let st = p.wait(); println!("FAIL: a process was started (exit {:?}), marker file exists: {}", st, marker.exists()); 1 }
    };
    let _ = std::fs::remove_file(&marker);
    std::process::exit(verdict);
}
