// C08 (bounded): what descriptors does a child really hold?  Every child is `sh -c` printing its own descriptor table
// (/proc/$$/fd).  A child may hold 0, 1, 2 and nothing else: any other descriptor is a leak (the parent's side of a pipe, the
// launch-status channel, a pipe of another child).  Configurations: a single command under every combination of inherit/pipe for the
// three streams; the same while three other Popens with pipes are alive; every stage of 2..4-stage pipelines (also under capture(),
// which adds the shared stderr pipe); concurrent spawns from four threads; and all of it again in a parent that itself has
// descriptors 0 and 2 closed (the pipes then land on low numbers).
use std::io::Read;
use subprocess::{Exec, Popen, PopenConfig, Redirection};

const AUDIT: &str = "for f in /proc/$$/fd/*; do echo \"FD ${f##*/} $(readlink $f)\"; done";
// -> the descriptors other than 0,1,2 (and the directory being listed)
fn extra(out: &str) -> Vec<String> {
    out.lines().filter(|l| l.starts_with("FD ")).filter(|l| { let mut it = l.split(' '); let n: i32 = it.nth(1).unwrap().parse().unwrap_or(-1); let tgt = it.next().unwrap_or(""); n > 2 && !tgt.starts_with("/proc/") && !tgt.is_empty() }).map(|l| l.to_string()).collect()
}
fn audit_file(i: usize) -> std::path::PathBuf { std::env::temp_dir().join(format!("verif-c08-{}-{}", std::process::id(), i)) }

fn main() {
    let closed_mode = std::env::args().nth(1).as_deref() == Some("--low-descriptors");
    // (closed here and not before exec: the Rust runtime reopens closed standard descriptors on /dev/null at startup)
    if closed_mode { unsafe { libc::close(0); libc::close(2); } }
    let label = if closed_mode { " (parent with descriptors 0 and 2 closed)" } else { "" };
    // a child that holds the launch-status channel makes Popen::create() wait for that child's exit: a hang is a failure
    std::thread::spawn(move || {
        std::thread::sleep(std::time::Duration::from_secs(if closed_mode { 25 } else { 60 }));
        println!("FAIL: still not finished after {} s{}: a spawn or a wait is blocked (a child holding the launch-status channel or a pipe end makes the parent wait for ever)", if closed_mode { 25 } else { 60 }, label);
        std::process::exit(1);
    });
    let (mut checked, mut bad) = (0, 0);
    let mut xbad = 0;
    let mut report = |what: String, out: &str| {
        checked += 1;
        let x = extra(out);
        if !out.contains("FD 1 ") && !out.contains("FD 0 ") { println!("FAIL: {}{}: no descriptor table came back: {:?}", what, label, out); bad += 1; }
        else if !x.is_empty() { if bad < 6 { println!("FAIL: {}{}: the child holds {:?}", what, label, x); } bad += 1; }
    };
    // ---- single commands: every combination of inherit/pipe; the table is written to a file so that all streams can be varied
    for others in [false, true] {
        let mut keep: Vec<Popen> = vec![];
        if others { for _ in 0..3 { keep.push(Popen::create(&["cat"], PopenConfig { stdin: Redirection::Pipe, stdout: Redirection::Pipe, stderr: Redirection::Pipe, ..Default::default() }).unwrap()); } }
        for combo in 0..8 {
            let r = |b: bool| if b { Redirection::Pipe } else { Redirection::None };
            let f = audit_file(combo);
            let script = format!("( {} ) > {}", AUDIT, f.display());
            let mut p = Popen::create(&["sh", "-c", &script], PopenConfig { stdin: r(combo & 1 != 0), stdout: r(combo & 2 != 0), stderr: r(combo & 4 != 0), ..Default::default() }).unwrap();
            p.wait().unwrap();
            let out = std::fs::read_to_string(&f).unwrap_or_default();
            let _ = std::fs::remove_file(&f);
            report(format!("single command, streams piped: stdin={} stdout={} stderr={}, {} other Popens alive", combo & 1 != 0, combo & 2 != 0, combo & 4 != 0, keep.len()), &out);
        }
        for mut k in keep { k.stdin.take(); let _ = k.wait(); }
    }
    // ---- merge variants
    for (o, e) in [(Redirection::Pipe, Redirection::Merge), (Redirection::Merge, Redirection::Pipe), (Redirection::Merge, Redirection::None), (Redirection::None, Redirection::Merge)] {
        let f = audit_file(20);
        let script = format!("( {} ) > {}", AUDIT, f.display());
        let what = format!("single command, stdout={:?} stderr={:?}", o, e);
        let mut p = Popen::create(&["sh", "-c", &script], PopenConfig { stdout: o, stderr: e, ..Default::default() }).unwrap();
        p.wait().unwrap();
        let out = std::fs::read_to_string(&f).unwrap_or_default();
        let _ = std::fs::remove_file(&f);
        report(what, &out);
    }
    // ---- children spawned while an exchange is set up but not finished: the Communicator holds the parent's pipe ends
    {
        let big = vec![b'x'; 200_000];
        let mut p1 = Popen::create(&["cat"], PopenConfig { stdin: Redirection::Pipe, stdout: Redirection::Pipe, stderr: Redirection::Pipe, ..Default::default() }).unwrap();
        let mut c1 = p1.communicate_start(Some(big.clone()));
        let mut c2 = Exec::cmd("cat").stdin(big.clone()).stdout(Redirection::Pipe).stderr(Redirection::Pipe).communicate().unwrap();
        let mut c3 = (Exec::cmd("cat") | Exec::cmd("cat")).stdin(big.clone()).communicate().unwrap();
        let f = audit_file(30);
        let script = format!("( {} ) > {}", AUDIT, f.display());
        let mut p = Popen::create(&["sh", "-c", &script], PopenConfig::default()).unwrap();
        p.wait().unwrap();
        let out = std::fs::read_to_string(&f).unwrap_or_default();
        let _ = std::fs::remove_file(&f);
        report("single command spawned while three exchanges (communicate_start, Exec::communicate, Pipeline::communicate) are set up".into(), &out);
        // the exchanges themselves must still run to completion
        for (n, c) in [&mut c1, &mut c2, &mut c3].iter_mut().enumerate() {
            match c.read() { Ok((o, _)) => if o.map(|o| o.len()) != Some(big.len()) { println!("FAIL: exchange {} did not return the 200000 bytes{}", n, label); xbad += 1; }, Err(e) => { println!("FAIL: exchange {} failed: {:?}{}", n, e.kind(), label); xbad += 1; } }
        }
        let _ = p1.wait();
    }
    // ---- pipelines: every stage audits itself into its own file and passes its input on
    for n in 2..=4usize {
        for term in 0..3 {
            let stage = |i: usize| Exec::cmd("sh").arg("-c").arg(format!("( {} ) > {}; cat", AUDIT, audit_file(100 + i).display()));
            let p = subprocess::Pipeline::from_exec_iter((0..n).map(stage)).stdin(subprocess::NullFile);
            match term {
                0 => { p.stdout(subprocess::NullFile).join().unwrap(); }
                1 => { p.capture().unwrap(); }
                _ => { let mut r = p.stream_stdout().unwrap(); let mut s = String::new(); r.read_to_string(&mut s).unwrap(); }
            }
            for i in 0..n {
                let out = std::fs::read_to_string(audit_file(100 + i)).unwrap_or_default();
                let _ = std::fs::remove_file(audit_file(100 + i));
                report(format!("stage {} of a {}-command pipeline run by {}", i, n, ["join", "capture", "stream_stdout"][term]), &out);
            }
        }
    }
    // ---- concurrent spawns: pipes created by one thread must not reach a child forked by another
    let hs: Vec<_> = (0..4).map(|t| std::thread::spawn(move || {
        let mut outs = vec![];
        for i in 0..25 {
            let f = audit_file(1000 + t * 100 + i);
            let script = format!("( {} ) > {}", AUDIT, f.display());
            let mut p = Popen::create(&["sh", "-c", &script], PopenConfig { stdin: Redirection::Pipe, stdout: Redirection::Pipe, stderr: Redirection::Pipe, ..Default::default() }).unwrap();
            p.stdin.take();
            p.wait().unwrap();
            outs.push(std::fs::read_to_string(&f).unwrap_or_default());
            let _ = std::fs::remove_file(&f);
        }
        outs
    })).collect();
    let mut conc_bad = 0;
    let mut first = String::new();
    for h in hs { for out in h.join().unwrap() { if !extra(&out).is_empty() { conc_bad += 1; if first.is_empty() { first = format!("{:?}", extra(&out)); } } } }
    checked += 1;
    if conc_bad > 0 { println!("FAIL: concurrent spawns{}: {} of 100 children hold a descriptor that is none of theirs, e.g. {}", label, conc_bad, first); bad += 1; }

    // ---- the same in a parent whose descriptors 0 and 2 are closed
    let mut sub_bad = false;
    if !closed_mode {
        let me = std::env::current_exe().unwrap();
        let mut c = std::process::Command::new(me);
        c.arg("--low-descriptors");
        let o = c.output().unwrap();
        print!("{}", String::from_utf8_lossy(&o.stdout));
        if !o.status.success() { sub_bad = true; }
    }
    println!("{} descriptor tables checked{}, {} with a leak", checked, label, bad);
    if bad > 0 || xbad > 0 || sub_bad { std::process::exit(1); }
    if !closed_mode { println!("ok"); }
}
