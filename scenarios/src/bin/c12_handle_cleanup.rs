// C12 (bounded): every handle or call that owns a child cleans up after itself.  For a set of child behaviours chosen to make a
// careless parent hang (a child that waits for end-of-file, floods a pipe, closes its streams early, or ignores its input) and every
// owning handle of the builder API (a dropped Popen, join, capture, the three stream adapters dropped early; single commands and
// pipelines): the call or drop returns promptly, and afterwards the parent has no child left at all -- neither running nor zombie.
use std::io::{Read, Write};
use std::time::{Duration, Instant};
use subprocess::{Exec, Redirection};

fn children_left() -> Option<String> {
    let mut st = 0;
    let r = unsafe { libc::waitpid(-1, &mut st, libc::WNOHANG) };
    if r == -1 { None } else if r == 0 { Some("a child is still running".into()) } else { Some(format!("pid {} was a zombie (nobody had waited for it)", r)) }
}
fn sh(script: &str) -> Exec { Exec::cmd("sh").arg("-c").arg(script) }

fn main() {
    let progress = std::sync::Arc::new(std::sync::Mutex::new(String::new()));
    let pr = progress.clone();
    std::thread::spawn(move || {
        let mut last = String::new();
        loop {
            std::thread::sleep(Duration::from_secs(10));
            let cur = pr.lock().unwrap().clone();
            if cur == last && !cur.is_empty() { println!("FAIL: still not back after 10 s: {}", cur); std::process::exit(1); }
            last = cur;
        }
    });
    let (mut checked, mut bad) = (0, 0);
    let big = vec![b'x'; 1_000_000];
    let mut case = |name: &str, f: &mut dyn FnMut() -> Result<(), String>| {
        *progress.lock().unwrap() = name.to_string();
        let t = Instant::now();
        let r = f();
        checked += 1;
        let mut why = vec![];
        if let Err(e) = r { why.push(e); }
        if t.elapsed() > Duration::from_secs(6) { why.push(format!("took {:?}", t.elapsed())); }
        if let Some(l) = children_left() { why.push(l); while children_left().is_some() { std::thread::sleep(Duration::from_millis(20)); if t.elapsed() > Duration::from_secs(8) { break; } } }
        if !why.is_empty() { bad += 1; println!("FAIL: {}: {}", name, why.join("; ")); }
    };

    // ---- a Popen that is simply dropped
    case("drop of a Popen (true)", &mut || { let _p = Exec::cmd("true").popen().map_err(|e| e.to_string())?; Ok(()) });
    case("drop of a Popen (sleep 0.2)", &mut || { let _p = sh("sleep 0.2").popen().map_err(|e| e.to_string())?; Ok(()) });
    // ---- join
    case("join", &mut || { let st = sh("exit 3").join().map_err(|e| e.to_string())?; if st != subprocess::ExitStatus::Exited(3) { return Err(format!("status {:?}", st)); } Ok(()) });
    case("pipeline join", &mut || { (sh("echo a") | Exec::cmd("cat") | sh("cat >/dev/null")).join().map_err(|e| e.to_string())?; Ok(()) });
    // ---- capture: child behaviours x input
    let behaviours: [(&str, &str); 6] = [
        ("cat", "cat"),
        ("ignores its input, exits at once", "exit 0"),
        ("closes stdin early, then writes 300000 bytes", "exec 0<&-; sleep 0.1; head -c 300000 /dev/zero"),
        ("closes stdin early, then writes 300000 bytes to stderr", "exec 0<&-; sleep 0.1; head -c 300000 /dev/zero >&2"),
        ("floods stderr, then cat", "head -c 300000 /dev/zero >&2; cat"),
        ("closes its outputs early and keeps working", "exec 1>&- 2>&-; cat >/dev/null; sleep 0.3"),
    ];
    for (bname, script) in behaviours.iter() {
        for input in 0..3 {
            let name = format!("capture, child {}, {}", bname, ["no input", "20 bytes of input", "1000000 bytes of input"][input]);
            case(&name, &mut || {
                let mut e = sh(script).stdout(Redirection::Pipe).stderr(Redirection::Pipe);
                if input == 0 { e = e.stdin(subprocess::NullFile); } else { e = e.stdin(if input == 1 { b"twenty bytes of data\n".to_vec() } else { big.clone() }); }
                let _ = e.capture();     // Ok or Err (EPIPE) -- both are fine; what matters is that it returns and leaves nothing
                Ok(())
            });
            let name = format!("pipeline capture, first command {}, {}", bname, ["no input", "20 bytes of input", "1000000 bytes of input"][input]);
            case(&name, &mut || {
                let mut p = sh(script) | Exec::cmd("cat");
                if input == 0 { p = p.stdin(subprocess::NullFile); } else { p = p.stdin(if input == 1 { b"twenty bytes of data\n".to_vec() } else { big.clone() }); }
                let _ = p.capture();
                Ok(())
            });
        }
    }
    // ---- stream adapters dropped before the child is done: only the adapter can release the pipe
    case("stream_stdout dropped early (child writes forever)", &mut || { let mut r = Exec::cmd("yes").stream_stdout().map_err(|e| e.to_string())?; let mut b = [0u8; 10]; r.read_exact(&mut b).map_err(|e| e.to_string())?; Ok(()) });
    case("stream_stderr dropped early (child writes forever)", &mut || { let mut r = sh("yes >&2").stream_stderr().map_err(|e| e.to_string())?; let mut b = [0u8; 10]; r.read_exact(&mut b).map_err(|e| e.to_string())?; Ok(()) });
    case("stream_stdin dropped (child waits for end-of-file)", &mut || { let mut w = sh("cat >/dev/null").stream_stdin().map_err(|e| e.to_string())?; w.write_all(b"abc").map_err(|e| e.to_string())?; Ok(()) });
    case("pipeline stream_stdout dropped early", &mut || { let mut r = (Exec::cmd("yes") | Exec::cmd("cat")).stream_stdout().map_err(|e| e.to_string())?; let mut b = [0u8; 10]; r.read_exact(&mut b).map_err(|e| e.to_string())?; Ok(()) });
    case("pipeline stream_stdin dropped (commands wait for end-of-file)", &mut || { let mut w = (Exec::cmd("cat") | sh("cat >/dev/null")).stream_stdin().map_err(|e| e.to_string())?; w.write_all(b"abc").map_err(|e| e.to_string())?; Ok(()) });
    println!("{} handles checked, {} mismatches", checked, bad);
    if bad > 0 { std::process::exit(1); }
    println!("ok");
}
