// C14 (bounded): the k-th command of an n-command pipeline cannot be started.  For n = 2..4, every failing position k, pipeline stdin
// inherited / piped / fed with data, and every way of running a pipeline (popen, join, capture, communicate, stream_stdout, stream_stdin):
// the call must return that error promptly, and afterwards the parent has no child left (running or zombie) and no extra descriptor.
// The started commands are `cat`s, i.e. they exit only when their stdin reaches end-of-file; for capture/communicate also `cat`s that
// first write 300000 bytes to their standard error (more than a pipe holds: they exit only if somebody reads or closes that pipe).
use std::time::{Duration, Instant};
use subprocess::{Exec, Pipeline, Redirection};

fn open_fds() -> usize { std::fs::read_dir("/proc/self/fd").unwrap().count() }
fn build(n: usize, k: usize, stdin_kind: usize, flood: bool) -> Pipeline {
    let cmds: Vec<Exec> = (0..n).map(|i| if i == k { Exec::cmd("/nonexistent/program") } else if flood { Exec::cmd("sh").arg("-c").arg("head -c 300000 /dev/zero >&2; exec cat") } else { Exec::cmd("cat") }).collect();
    let p = Pipeline::from_exec_iter(cmds);
    match stdin_kind { 0 => p.stdin(subprocess::NullFile), 1 => p.stdin(Redirection::Pipe), _ => p.stdin("some input data\n") }
}
fn main() {
    // watchdog: a hang anywhere is a failure
    let progress = std::sync::Arc::new(std::sync::Mutex::new(String::new()));
    let pr = progress.clone();
    std::thread::spawn(move || {
        let mut last = String::new();
        loop {
            std::thread::sleep(Duration::from_secs(10));
            let cur = pr.lock().unwrap().clone();
            if cur == last && !cur.is_empty() { println!("FAIL: still not back after 10 s: {}", cur); std::process::exit(1); }
            last = cur;
        }
    });
    let (mut checked, mut bad) = (0, 0);
    let fds0 = open_fds();
    for n in 2..=4 {
        for k in 0..n {
            for stdin_kind in 0..3 {
                for term in 0..6 { for flood in [false, true] {
                    // a command that floods its stderr: only where the library itself captures stderr, and only if some command is started
                    if flood && !((term == 2 || term == 3) && k > 0) { continue; }
                    // input data is only accepted by capture/communicate; a piped stdin without data is not accepted by them
                    if stdin_kind == 2 && !(term == 2 || term == 3) { continue; }
                    if stdin_kind == 1 && (term == 2 || term == 3) { continue; }
                    if term == 5 && stdin_kind != 0 { continue; }
                    let what = format!("n={} k={} stdin={} via {}{}", n, k, ["null", "pipe", "data"][stdin_kind], ["popen", "join", "capture", "communicate", "stream_stdout", "stream_stdin"][term], if flood { " (started commands first write 300000 bytes to stderr)" } else { "" });
                    *progress.lock().unwrap() = what.clone();
                    let t = Instant::now();
                    let p = build(n, k, stdin_kind, flood);
                    let failed = match term {
                        0 => p.popen().is_err(),
                        1 => p.join().is_err(),
                        2 => p.capture().is_err(),
                        3 => p.communicate().is_err(),
                        4 => p.stream_stdout().is_err(),
                        _ => p.stream_stdin().is_err(),
                    };
                    checked += 1;
                    let mut why = vec![];
                    if !failed { why.push("no error returned".to_string()); }
                    if t.elapsed() > Duration::from_secs(5) { why.push(format!("took {:?}", t.elapsed())); }
                    // detached stages (communicate) may still be exiting: give them a moment, then nothing may be left
                    let mut left = 0;
                    for _ in 0..40 {
                        let mut st = 0;
                        let r = unsafe { libc::waitpid(-1, &mut st, libc::WNOHANG) };
                        if r == -1 { left = 0; break; }
                        left = 1;
                        if r == 0 { std::thread::sleep(Duration::from_millis(25)); }
                    }
                    if left != 0 { why.push("a child of the attempt is still there (running or zombie)".to_string()); }
                    if open_fds() != fds0 { why.push(format!("{} descriptors open instead of {}", open_fds(), fds0)); }
                    if !why.is_empty() { if bad < 5 { println!("FAIL: {}: {}", what, why.join("; ")); } bad += 1; }
                } }
            }
        }
    }
    // started commands that have pipes of their own (their stderr piped individually) and fill them: every end the parent holds for a
    // started command must be released before it is waited for, not only those of the first command
    for k in 2..=3 {
        for term in 0..2 {
            checked += 1;
            let what = format!("n={} k={} via {}: every started command has its own stderr pipe and writes 300000 bytes to it", k + 1, k, ["popen", "join"][term]);
            *progress.lock().unwrap() = what.clone();
            let mut cmds: Vec<Exec> = (0..k).map(|_| Exec::cmd("sh").arg("-c").arg("head -c 300000 /dev/zero >&2; exec cat").stderr(Redirection::Pipe)).collect();
            cmds.push(Exec::cmd("/nonexistent/program"));
            let p = Pipeline::from_exec_iter(cmds).stdin(subprocess::NullFile);
            let t = Instant::now();
            let failed = if term == 0 { p.popen().is_err() } else { p.join().is_err() };
            let mut why = vec![];
            if !failed { why.push("no error was returned".to_string()); }
            if t.elapsed() > Duration::from_secs(5) { why.push(format!("returned only after {:?}", t.elapsed())); }
            let mut left = 0; loop { let r = unsafe { libc::waitpid(-1, std::ptr::null_mut(), libc::WNOHANG) }; if r > 0 { left += 1; } else { if r == 0 { left += 1; } break; } }
            if left != 0 { why.push("a child of the attempt is still there (running or zombie)".to_string()); }
            if open_fds() != fds0 { why.push(format!("{} descriptors open instead of {}", open_fds(), fds0)); }
            if !why.is_empty() { println!("FAIL: {}: {}", what, why.join("; ")); bad += 1; }
        }
    }
    *progress.lock().unwrap() = String::new();
    println!("{} failing pipelines checked, {} mismatches", checked, bad);
    if bad > 0 { std::process::exit(1); }
    println!("ok");
}
