// C09 (bounded): the exit status is the truth, and once known it never changes.  Every exit code 0..255 and every fatal signal
// (with and without a core dump) comes back exactly; a child that is merely stopped is never reported as finished; and after the
// status has been reported every query method, in every order, returns the same value and pid() is gone.  A child reaped behind
// the library's back gives Undetermined, once and for all.
use std::time::Duration;
use subprocess::{ExitStatus, Popen, PopenConfig};

fn sh(script: &str) -> Popen { Popen::create(&["sh", "-c", script], PopenConfig::default()).unwrap() }
fn main() {
    let (mut checked, mut bad) = (0, 0);
    let mut fail = |msg: String| { if bad < 8 { println!("FAIL: {}", msg); } bad += 1; };
    // ---- exit codes, through the three query methods in turn
    for code in 0..=255u32 {
        checked += 1;
        let mut p = sh(&format!("exit {}", code));
        let st = match code % 3 {
            0 => p.wait().unwrap(),
            1 => p.wait_timeout(Duration::from_secs(20)).unwrap().expect("child should have exited"),
            _ => loop { if let Some(s) = p.poll() { break s; } std::thread::sleep(Duration::from_millis(2)); },
        };
        if st != ExitStatus::Exited(code) { fail(format!("exit code {} is reported as {:?}", code, st)); }
        // final: every later query in any order
        let again = [p.poll(), p.wait().ok(), p.wait_timeout(Duration::from_millis(0)).unwrap(), p.exit_status(), p.poll()];
        if again.iter().any(|a| *a != Some(st)) { fail(format!("status {:?} changed on a later query: {:?}", st, again)); }
        if p.pid().is_some() { fail(format!("pid() is still {:?} after the status was reported", p.pid())); }
    }
    // ---- fatal signals; SIGQUIT/SIGABRT/SIGSEGV... with the core-dump limit raised too (the status word then carries the core flag)
    let fatal = [libc::SIGHUP, libc::SIGINT, libc::SIGQUIT, libc::SIGILL, libc::SIGTRAP, libc::SIGABRT, libc::SIGBUS, libc::SIGFPE, libc::SIGKILL, libc::SIGUSR1, libc::SIGSEGV,
                 libc::SIGUSR2, libc::SIGPIPE, libc::SIGALRM, libc::SIGTERM, libc::SIGXCPU, libc::SIGXFSZ, libc::SIGVTALRM, libc::SIGPROF, libc::SIGSYS];
    for core in [false, true] {
        for &sig in fatal.iter() {
            checked += 1;
            // run in a scratch directory so that a core file, if the system writes one, lands there
            let mut p = sh(&format!("cd /tmp && ulimit -c {}; kill -{} $$; sleep 5", if core { "unlimited" } else { "0" }, sig));
            let st = p.wait().unwrap();
            if st != ExitStatus::Signaled(sig as u8) { fail(format!("death by signal {} (core dumps {}) is reported as {:?}", sig, if core { "enabled" } else { "disabled" }, st)); }
            if p.poll() != Some(st) || p.pid().is_some() { fail(format!("status {:?} not final", st)); }
        }
    }
    let _ = std::fs::remove_file("/tmp/core");
    // ---- a stopped child is still running
    {
        checked += 1;
        let mut p = sh("kill -STOP $$; exit 9");
        let pid = p.pid().unwrap();
        // wait until it has stopped itself
        for _ in 0..200 { let s = std::fs::read_to_string(format!("/proc/{}/stat", pid)).unwrap_or_default(); if s.contains(") T ") { break; } std::thread::sleep(Duration::from_millis(5)); }
        for i in 0..5 {
            let r = if i % 2 == 0 { p.poll() } else { p.wait_timeout(Duration::from_millis(20)).unwrap() };
            if r.is_some() { fail(format!("a stopped (not terminated) child is reported as finished: {:?}", r)); break; }
        }
        if p.pid() != Some(pid) { fail("pid() vanished while the child is only stopped".into()); }
        unsafe { libc::kill(pid as i32, libc::SIGCONT); }
        let st = p.wait().unwrap();
        if st != ExitStatus::Exited(9) { fail(format!("after being continued the child exited with 9, reported {:?}", st)); }
    }
    // ---- reaped by somebody else: Undetermined, and that is final too
    {
        checked += 1;
        let mut p = sh("exit 3");
        let pid = p.pid().unwrap();
        let mut st = 0;
        unsafe { libc::waitpid(pid as i32, &mut st, 0); }
        let a = p.poll();
        let b = p.wait().ok();
        let c = p.wait_timeout(Duration::from_millis(0)).unwrap();
        if a != Some(ExitStatus::Undetermined) || b != a || c != a || p.pid().is_some() { fail(format!("a child reaped behind the library's back: poll {:?}, wait {:?}, wait_timeout {:?}, pid {:?}; expected Undetermined every time and no pid", a, b, c, p.pid())); }
    }
    println!("{} children checked, {} mismatches", checked, bad);
    if bad > 0 { std::process::exit(1); }
    println!("ok");
}
