// C09 (bounded): the exit status is the truth, and once known it never changes.  Every exit code 0..255 and every fatal signal
// (with and without a core dump) comes back exactly; a child that is merely stopped is never reported as finished; and after the
// status has been reported every query method, in every order, returns the same value and pid() is gone.  A child reaped behind
// the library's back gives Undetermined, once and for all.
use std::time::Duration;
use subprocess::{ExitStatus, Popen, PopenConfig};

fn sh(script: &str) -> Popen { Popen::create(&["sh", "-c", script], PopenConfig::default()).unwrap() }
fn main() {
    let (mut checked, mut bad) = (0, 0);
    let mut fail = |msg: String| { if bad < 8 { println!("FAIL: {}", msg); } bad += 1; };
    // ---- exit codes, through the three query methods in turn
    for code in 0..=255u32 {
        checked += 1;
        let mut p = sh(&format!("exit {}", code));
        let st = match code % 3 {
            0 => p.wait().unwrap(),
            1 => p.wait_timeout(Duration::from_secs(20)).unwrap().expect("child should have exited"),
            _ => loop { if let Some(s) = p.poll() { break s; } std::thread::sleep(Duration::from_millis(2)); },
        };
        if st != ExitStatus::Exited(code) { fail(format!("exit code {} is reported as {:?}", code, st)); }
        // final: every later query in any order
        let again = [p.poll(), p.wait().ok(), p.wait_timeout(Duration::from_millis(0)).unwrap(), p.exit_status(), p.poll()];
        if again.iter().any(|a| *a != Some(st)) { fail(format!("status {:?} changed on a later query: {:?}", st, again)); }
        if p.pid().is_some() { fail(format!("pid() is still {:?} after the status was reported", p.pid())); }
    }
    // ---- fatal signals; SIGQUIT/SIGABRT/SIGSEGV... with the core-dump limit raised too (the status word then carries the core flag)
    let fatal = [libc::SIGHUP, libc::SIGINT, libc::SIGQUIT, libc::SIGILL, libc::SIGTRAP, libc::SIGABRT, libc::SIGBUS, libc::SIGFPE, libc::SIGKILL, libc::SIGUSR1, libc::SIGSEGV,
                 libc::SIGUSR2, libc::SIGPIPE, libc::SIGALRM, libc::SIGTERM, libc::SIGXCPU, libc::SIGXFSZ, libc::SIGVTALRM, libc::SIGPROF, libc::SIGSYS];
    for core in [false, true] {
        for &sig in fatal.iter() {
            checked += 1;
            // run in a scratch directory so that a core file, if the system writes one, lands there
            let mut p = sh(&format!("cd /tmp && ulimit -c {}; kill -{} $$; sleep 5", if core { "unlimited" } else { "0" }, sig));
            let st = p.wait().unwrap();
            if st != ExitStatus::Signaled(sig as u8) { fail(format!("death by signal {} (core dumps {}) is reported as {:?}", sig, if core { "enabled" } else { "disabled" }, st)); }
            if p.poll() != Some(st) || p.pid().is_some() { fail(format!("status {:?} not final", st)); }
        }
    }
    let _ = std::fs::remove_file("/tmp/core");
    // ---- a stopped child is still running
    {
        checked += 1;
        let mut p = sh("kill -STOP $$; exit 9");
        let pid = p.pid().unwrap();
        // wait until it has stopped itself
        for _ in 0..200 { let s = std::fs::read_to_string(format!("/proc/{}/stat", pid)).unwrap_or_default(); if s.contains(") T ") { break; } std::thread::sleep(Duration::from_millis(5)); }
        for i in 0..5 {
            let r = if i % 2 == 0 { p.poll() } else { p.wait_timeout(Duration::from_millis(20)).unwrap() };
            if r.is_some() { fail(format!("a stopped (not terminated) child is reported as finished: {:?}", r)); break; }
        }
        if p.pid() != Some(pid) { fail("pid() vanished while the child is only stopped".into()); }
        unsafe { libc::kill(pid as i32, libc::SIGCONT); }
        let st = p.wait().unwrap();
        if st != ExitStatus::Exited(9) { fail(format!("after being continued the child exited with 9, reported {:?}", st)); }
    }
    // ---- reaped by somebody else: Undetermined, and that is final too
    {
        checked += 1;
        let mut p = sh("exit 3");
        let pid = p.pid().unwrap();
        let mut st = 0;
        unsafe { libc::waitpid(pid as i32, &mut st, 0); }
        let a = p.poll();
        let b = p.wait().ok();
        let c = p.wait_timeout(Duration::from_millis(0)).unwrap();
        if a != Some(ExitStatus::Undetermined) || b != a || c != a || p.pid().is_some() { fail(format!("a child reaped behind the library's back: poll {:?}, wait {:?}, wait_timeout {:?}, pid {:?}; expected Undetermined every time and no pid", a, b, c, p.pid())); }
    }
    // ---- a detached handle still tells the truth: the library itself never reaps a child whose handle is alive, whatever else is
    // started in the meantime
    for (how, script, want) in [(0, "exit 7", ExitStatus::Exited(7)), (1, "exit 42", ExitStatus::Exited(42)), (2, "kill -USR1 $$; sleep 5", ExitStatus::Signaled(libc::SIGUSR1 as u8)), (3, "exit 0", ExitStatus::Exited(0))] {
        checked += 1;
        let mut a = if how == 3 { Popen::create(&["sh", "-c", script], PopenConfig { detached: true, ..Default::default() }).unwrap() } else { let mut a = sh(script); a.detach(); a };
        let apid = a.pid().unwrap();
        // wait until it has terminated, without reaping it
        unsafe { let mut si: libc::siginfo_t = std::mem::zeroed(); libc::waitid(libc::P_PID, apid as libc::id_t, &mut si, libc::WEXITED | libc::WNOWAIT); }
        // unrelated activity in between
        for _ in 0..2 { let mut b = sh("true"); b.wait().unwrap(); }
        let mut other = sh("true"); other.detach(); drop(other);
        let st = match how { 0 | 3 => a.wait().ok(), 1 => a.poll(), _ => a.wait_timeout(Duration::from_secs(5)).unwrap() };
        if st != Some(want) { fail(format!("a detached child that ended with {:?} while other children were started and reaped is reported as {:?}", want, st)); }
    }
    // ---- a blocking wait() disturbed by a signal handler (no SA_RESTART): it may fail with EINTR, it may carry on, but a status it
    // reports is the true one, the child has really ended by then, and it stays
    {
        checked += 1;
        extern "C" fn on_usr1(_: libc::c_int) {}
        unsafe {
            let mut sa: libc::sigaction = std::mem::zeroed();
            sa.sa_sigaction = on_usr1 as usize;
            sa.sa_flags = 0;
            libc::sigaction(libc::SIGUSR1, &sa, std::ptr::null_mut());
        }
        let me = unsafe { libc::pthread_self() } as usize;
        let stop = std::sync::Arc::new(std::sync::atomic::AtomicBool::new(false));
        let stop2 = stop.clone();
        let pinger = std::thread::spawn(move || { while !stop2.load(std::sync::atomic::Ordering::SeqCst) { std::thread::sleep(Duration::from_millis(30)); unsafe { libc::pthread_kill(me as libc::pthread_t, libc::SIGUSR1); } } });
        let mut p = sh("sleep 0.6; exit 7");
        let pid = p.pid().unwrap();
        let mut rounds = 0;
        loop {
            rounds += 1;
            match p.wait() {
                Ok(st) => {
                    let alive = unsafe { libc::kill(pid as i32, 0) } == 0 && std::fs::read_to_string(format!("/proc/{}/stat", pid)).map(|s| !s.contains(") Z ")).unwrap_or(false);
                    if st != ExitStatus::Exited(7) || alive { fail(format!("wait() disturbed by signal handlers returned {:?} after {} calls (child still running: {}); the child exits with 7 after 0.6 s", st, rounds, alive)); }
                    if p.poll() != Some(st) || p.wait().ok() != Some(st) || p.pid().is_some() { fail(format!("status {:?} reported by a disturbed wait() is not final: poll {:?}, pid {:?}", st, p.poll(), p.pid())); }
                    break;
                }
                Err(_) => { if p.pid() != Some(pid) { fail("a failed wait() dropped the pid of a live child".into()); break; } }
            }
            if rounds > 1000 { fail("wait() disturbed by signal handlers never succeeds".into()); break; }
        }
        stop.store(true, std::sync::atomic::Ordering::SeqCst);
        let _ = pinger.join();
        unsafe { libc::signal(libc::SIGUSR1, libc::SIG_DFL); }
        let _ = p.kill(); let _ = p.wait();
    }
    println!("{} children checked, {} mismatches", checked, bad);
    if bad > 0 { std::process::exit(1); }
    println!("ok");
}
