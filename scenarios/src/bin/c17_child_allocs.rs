// C17 (bounded): nothing is allocated between fork and exec.  A counting global allocator is armed in the forked child by a
// pthread_atfork handler and reports every (re)allocation through a pipe that exec closes.  Runs over command-name lengths, PATH shapes
// (longest entry first / in the middle / last / single entry / many entries), working-directory lengths, environment and argument sizes,
// stream configurations, for a successful exec and for a failing one (program not found anywhere on PATH).
use std::alloc::{GlobalAlloc, Layout, System};
use std::sync::atomic::{AtomicI32, Ordering};
use subprocess::{Popen, PopenConfig, Redirection};

static ARMED_FD: AtomicI32 = AtomicI32::new(-1);
static REPORT_FD: AtomicI32 = AtomicI32::new(-1);
struct Counting;
unsafe impl GlobalAlloc for Counting {
    unsafe fn alloc(&self, l: Layout) -> *mut u8 {
        let fd = ARMED_FD.load(Ordering::Relaxed);
        if fd >= 0 { libc::write(fd, b"A".as_ptr() as *const _, 1); }
        System.alloc(l)
    }
    unsafe fn dealloc(&self, p: *mut u8, l: Layout) { System.dealloc(p, l) }
    unsafe fn realloc(&self, p: *mut u8, l: Layout, n: usize) -> *mut u8 {
        let fd = ARMED_FD.load(Ordering::Relaxed);
        if fd >= 0 { libc::write(fd, b"R".as_ptr() as *const _, 1); }
        System.realloc(p, l, n)
    }
}
#[global_allocator]
static G: Counting = Counting;
extern "C" fn in_child() { ARMED_FD.store(REPORT_FD.load(Ordering::Relaxed), Ordering::Relaxed); }

fn child_allocs(argv: &[String], cfg: PopenConfig) -> (bool, String) {
    let mut fds = [0i32; 2];
    unsafe { libc::pipe(fds.as_mut_ptr()); libc::fcntl(fds[0], libc::F_SETFD, libc::FD_CLOEXEC); libc::fcntl(fds[1], libc::F_SETFD, libc::FD_CLOEXEC); }
    REPORT_FD.store(fds[1], Ordering::Relaxed);
    let r = Popen::create(argv, cfg);
    let ok = r.is_ok();
    if let Ok(mut p) = r { let _ = p.wait(); }
    REPORT_FD.store(-1, Ordering::Relaxed);
    unsafe { libc::close(fds[1]); }
    let mut buf = [0u8; 64];
    let k = unsafe { libc::read(fds[0], buf.as_mut_ptr() as *mut _, 64) };
    unsafe { libc::close(fds[0]); }
    (ok, String::from_utf8_lossy(&buf[..k.max(0) as usize]).into_owned())
}
fn main() {
    unsafe { libc::pthread_atfork(None, None, Some(in_child)); }
    let root = std::env::temp_dir().join(format!("verif-c17-{}", std::process::id()));
    let _ = std::fs::remove_dir_all(&root);
    // directories of different name lengths; the real `true` is only in /bin or /usr/bin
    let short = root.join("s");
    let long = root.join("l".repeat(120));
    let mid = root.join("m".repeat(40));
    for d in [&short, &long, &mid] { std::fs::create_dir_all(d).unwrap(); }
    let sys = "/usr/bin:/bin";
    let (s, l, m) = (short.display().to_string(), long.display().to_string(), mid.display().to_string());
    let paths = vec![
        format!("{}:{}:{}:{}", l, m, s, sys), format!("{}:{}:{}:{}", s, l, m, sys), format!("{}:{}:{}:{}", s, m, sys, l), format!("{}:{}", sys, l), l.clone(),
        format!("{}", sys), format!(":{}::{}:", s, sys), (0..40).map(|i| format!("{}/{}", s, i)).collect::<Vec<_>>().join(":") + ":" + sys,
        String::new(),      // an empty PATH counts as none: no search at all
    ];
    let mut long_cwd = String::from("/tmp");
    while long_cwd.len() < 500 { long_cwd.push_str("/."); }
    let cwds: Vec<Option<String>> = vec![None, Some("/tmp".into()), Some(long_cwd)];
    // names without a slash (searched on PATH: found / not found) and with one (used as given: exists / does not)
    let cmds = ["true", "a-command-name-that-does-not-exist-anywhere-0123456789-0123456789", "/bin/true", "./no/such/program-with-a-slash-0123456789"];
    let (mut checked, mut bad) = (0, 0);
    for path in &paths {
        std::env::set_var("PATH", path);
        for cwd in &cwds {
            for cmd in cmds.iter() {
                for big in [false, true] {
                    let mut argv = vec![cmd.to_string()];
                    let mut env = None;
                    if big {
                        for i in 0..50 { argv.push(format!("argument-{}-{}", i, "x".repeat(i))); }
                        env = Some((0..60).map(|i| (format!("VAR{}", i % 45).into(), "v".repeat(i).into())).collect());
                    }
                    let cfg = PopenConfig { cwd: cwd.clone().map(|c| c.into()), env, stdin: if big { Redirection::Pipe } else { Redirection::None },
                                            stdout: if big { Redirection::Pipe } else { Redirection::None }, stderr: if big { Redirection::Merge } else { Redirection::None }, ..Default::default() };
                    checked += 1;
                    let (_ok, allocs) = child_allocs(&argv, cfg);
                    if !allocs.is_empty() {
                        if bad < 5 { println!("FAIL: {} allocation(s) in the child between fork and exec: cmd {:?}, cwd of {} bytes, PATH {:?}..., big={}", allocs.len(), cmd, cwd.as_ref().map(|c| c.len()).unwrap_or(0), &path[..path.len().min(60)], big); }
                        bad += 1;
                    }
                }
            }
        }
    }
    let _ = std::fs::remove_dir_all(&root);
    println!("{} spawns checked, {} with allocations in the child", checked, bad);
    if bad > 0 { std::process::exit(1); }
    println!("ok");
}
