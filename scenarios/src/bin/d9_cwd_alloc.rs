// D9 (C17): nothing may be allocated between fork and exec.  A counting global allocator is armed in the
// child by a pthread_atfork handler and reports every allocation through a pipe; the program is started
// with a working directory of 400 bytes (std's chdir path buffer on the stack holds 383).
use std::alloc::{GlobalAlloc, Layout, System};
use std::sync::atomic::{AtomicI32, Ordering};
use subprocess::{Popen, PopenConfig};

static ARMED_FD: AtomicI32 = AtomicI32::new(-1);
static REPORT_FD: AtomicI32 = AtomicI32::new(-1);
struct Counting;
unsafe impl GlobalAlloc for Counting {
    unsafe fn alloc(&self, l: Layout) -> *mut u8 {
        let fd = ARMED_FD.load(Ordering::Relaxed);
        if fd >= 0 { libc::write(fd, b"A".as_ptr() as *const _, 1); }
        System.alloc(l)
    }
    unsafe fn dealloc(&self, p: *mut u8, l: Layout) { System.dealloc(p, l) }
    unsafe fn realloc(&self, p: *mut u8, l: Layout, n: usize) -> *mut u8 {
        let fd = ARMED_FD.load(Ordering::Relaxed);
        if fd >= 0 { libc::write(fd, b"R".as_ptr() as *const _, 1); }
        System.realloc(p, l, n)
    }
}
#[global_allocator]
static G: Counting = Counting;
extern "C" fn in_child() { ARMED_FD.store(REPORT_FD.load(Ordering::Relaxed), Ordering::Relaxed); }

fn allocations_in_child(cwd: &str) -> (bool, String) {
    let mut fds = [0i32; 2];
    unsafe { libc::pipe(fds.as_mut_ptr()); libc::fcntl(fds[1], libc::F_SETFD, libc::FD_CLOEXEC); }
    REPORT_FD.store(fds[1], Ordering::Relaxed);
    let r = Popen::create(&["true"], PopenConfig { cwd: Some(cwd.into()), ..Default::default() });
    let ok = r.is_ok();
    drop(r);
    unsafe { libc::close(fds[1]); }
    REPORT_FD.store(-1, Ordering::Relaxed);
    let mut buf = [0u8; 64];
    let k = unsafe { libc::read(fds[0], buf.as_mut_ptr() as *mut _, 64) };
    unsafe { libc::close(fds[0]); }
    (ok, String::from_utf8_lossy(&buf[..k.max(0) as usize]).into_owned())
}

fn main() {
    unsafe { libc::pthread_atfork(None, None, Some(in_child)); }
    let mut long = String::from("/tmp");
    while long.len() < 400 { long.push_str("/."); }
    let mut bad = false;
    for cwd in ["/tmp", long.as_str()] {
        let (ok, allocs) = allocations_in_child(cwd);
        println!("cwd of {} bytes: started={} allocations between fork and exec: {:?}", cwd.len(), ok, allocs);
        if !allocs.is_empty() { bad = true; }
    }
    if bad { println!("FAIL: the child allocated between fork and exec"); std::process::exit(1); }
    println!("ok");
}
