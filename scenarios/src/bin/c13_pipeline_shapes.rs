// C13 (bounded): every way of composing the same stage sequence behaves identically, each stage's output feeds exactly the next stage,
// the pipeline's input reaches only the first stage and its output comes only from the last, the stderr of every stage reaches the
// shared sink, and join/capture return the LAST stage's status only after ALL stages have exited.
use std::time::{Duration, Instant};
use subprocess::{Exec, ExitStatus, Pipeline, Redirection};

// stage i appends its tag to every line: the result shows the order in which the data passed through the stages
fn stage(tag: &str, code: u32) -> Exec { Exec::cmd("sh").arg("-c").arg(format!("sed 's/$/{}/'; echo err{} >&2; exit {}", tag, tag, code)) }
fn shapes(n: usize) -> Vec<(String, Pipeline)> {
    let s = |i: usize| stage(&format!("{}", i), if i == n - 1 { 7 } else { (i as u32) + 1 });
    let mut out = vec![];
    out.push(("from_exec_iter".to_string(), Pipeline::from_exec_iter((0..n).map(|i| s(i)))));
    let mut p = s(0) | s(1);
    for i in 2..n { p = p | s(i); }
    out.push(("((a|b)|c)...".to_string(), p));
    if n >= 4 {
        out.push(("(a|b)|(c|d..)".to_string(), (s(0) | s(1)) | { let mut q = s(2) | s(3); for i in 4..n { q = q | s(i); } q }));
    }
    if n == 3 { out.push(("(a|b)|c via Pipeline|Exec".to_string(), Pipeline::new(s(0), s(1)) | s(2))); }
    out
}
fn main() {
    let (mut checked, mut bad) = (0, 0);
    for n in 2..=5 {
        let want_out = format!("in{}\n", (0..n).map(|i| i.to_string()).collect::<String>());
        for (name, p) in shapes(n) {
            checked += 1;
            let c = p.stdin("in\n").capture().unwrap();
            let mut errs: Vec<&str> = c.stderr_str().leak().lines().collect();
            errs.sort();
            let want_errs: Vec<String> = (0..n).map(|i| format!("err{}", i)).collect();
            let ok = c.stdout_str() == want_out && errs == want_errs.iter().map(|s| s.as_str()).collect::<Vec<_>>() && c.exit_status == ExitStatus::Exited(7);
            if !ok { println!("FAIL: n={} shape {}: stdout {:?} (want {:?}), stderr lines {:?}, status {:?} (want the last stage's, 7)", n, name, c.stdout_str(), want_out, errs, c.exit_status); bad += 1; }
        }
    }
    // join / capture return only after all stages have exited: an early stage closes its streams and keeps working for a while
    let marker = std::env::temp_dir().join(format!("verif-c13-{}", std::process::id()));
    for term in 0..2 {
        let _ = std::fs::remove_file(&marker);
        let slow = Exec::cmd("sh").arg("-c").arg(format!("exec >&- 2>&-; sleep 0.4; echo done > {}", marker.display()));
        let p = slow | Exec::cmd("true");
        let t = Instant::now();
        checked += 1;
        let st = if term == 0 { p.join().unwrap() } else { p.capture().unwrap().exit_status };
        if !marker.exists() || st != ExitStatus::Exited(0) {
            println!("FAIL: {} returned after {:?} with {:?} although the first stage had not finished (marker file exists: {})", ["join", "capture"][term], t.elapsed(), st, marker.exists());
            bad += 1;
        }
    }
    let _ = std::fs::remove_file(&marker);
    // the configured output receives only the last stage's output; the configured input reaches only the first stage
    checked += 1;
    let c = (Exec::cmd("sh").arg("-c").arg("cat; echo first") | Exec::cmd("sh").arg("-c").arg("cat >/dev/null; echo last")).stdin("x\n").stdout(Redirection::Pipe).capture().unwrap();
    if c.stdout_str() != "last\n" { println!("FAIL: pipeline output {:?}, expected only the last stage's", c.stdout_str()); bad += 1; }
    // a first stage that stops reading its input early: the exchange may fail (broken pipe), but a result reported as Ok is complete --
    // every line any stage wrote afterwards is there, and the status is the last stage's
    for shape in 0..2 {
        checked += 1;
        let first = Exec::cmd("sh").arg("-c").arg("exec 0<&-; sleep 0.4; echo late; echo elate >&2");
        let p = if shape == 0 { first | Exec::cmd("cat") } else { subprocess::Pipeline::from_exec_iter(vec![first, Exec::cmd("cat"), Exec::cmd("cat")]) };
        match p.stdin(vec![b'x'; 1_000_000]).capture() {
            Ok(c) => {
                if c.stdout_str() != "late\n" || !c.stderr_str().contains("elate") || c.exit_status != ExitStatus::Exited(0) {
                    println!("FAIL: capture of a pipeline whose first stage stops reading returned Ok with stdout {:?}, stderr {:?}, status {:?}: output written after the input was refused is missing", c.stdout_str(), c.stderr_str(), c.exit_status);
                    bad += 1;
                }
            }
            Err(_) => {}        // a broken pipe on the input side is a legitimate outcome
        }
    }
    let _ = Duration::from_secs(0);
    println!("{} pipelines checked, {} mismatches", checked, bad);
    if bad > 0 { std::process::exit(1); }
    println!("ok");
}
