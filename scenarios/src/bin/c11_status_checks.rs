// C11 (bounded): wait_timeout performs only a bounded number of status checks and sleeps in between rather than spinning, for
// sub-millisecond, millisecond and longer durations.  The program runs itself under strace and counts the wait4 and nanosleep system
// calls made by the inner run (system calls are counted, not time, so the check does not depend on machine load).
use std::process::Command;
use std::time::Duration;
use subprocess::{Popen, PopenConfig};

fn inner() {
    let mut p = Popen::create(&["sleep", "30"], PopenConfig::default()).unwrap();
    for _ in 0..40 { assert!(p.wait_timeout(Duration::from_micros(900)).unwrap().is_none()); }
    for _ in 0..10 { assert!(p.wait_timeout(Duration::from_micros(2500)).unwrap().is_none()); }
    assert!(p.wait_timeout(Duration::from_millis(250)).unwrap().is_none());
    for _ in 0..20 { assert!(p.poll().is_none()); }
    p.kill().unwrap();
    p.wait().unwrap();
}
fn main() {
    if std::env::args().nth(1).as_deref() == Some("inner") { inner(); return; }
    let me = std::env::current_exe().unwrap();
    let log = std::env::temp_dir().join(format!("verif-c11-{}.strace", std::process::id()));
    let st = Command::new("strace").args(&["-f", "-e", "trace=wait4,clock_nanosleep,nanosleep", "-o"]).arg(&log).arg(&me).arg("inner").status();
    let st = match st { Ok(s) => s, Err(e) => { println!("skipped: strace not available ({})", e); return; } };
    assert!(st.success(), "inner run failed");
    let text = std::fs::read_to_string(&log).unwrap();
    let _ = std::fs::remove_file(&log);
    let waits = text.lines().filter(|l| l.contains("wait4(") && !l.contains("resumed")).count();
    let sleeps = text.lines().filter(|l| l.contains("nanosleep(") && !l.contains("resumed")).count();
    // 71 timed calls: at most one check more than sleeps in each; 20 polls: one check each; 1 blocking wait
    let timed_calls = 51;
    println!("status checks (wait4): {}, sleeps: {}", waits, sleeps);
    let mut bad = false;
    if waits > sleeps + timed_calls + 20 + 2 { println!("FAIL: {} status checks but only {} sleeps: wait_timeout checks the status without sleeping in between (busy wait)", waits, sleeps); bad = true; }
    // back-off 1,2,4,...,100 ms: 40 x <=2, 10 x <=3, 250 ms <= 12 sleeps
    if sleeps > 40 * 2 + 10 * 3 + 14 { println!("FAIL: {} sleeps for 51 short waits: more status checks than the back-off allows", sleeps); bad = true; }
    if bad { std::process::exit(1); }
    println!("ok");
}
