// D2 (C04): a child that closes its stdin while the parent still has input to deliver and that
// stays silent on stdout.  No time limit is set, so read() must never report a timeout.
use std::io::ErrorKind;
use subprocess::{Exec, Redirection};
fn main() {
    let input = vec![b'x'; 1 << 20];
    let mut comm = Exec::cmd("sh")
        .args(&["-c", "exec 0<&-; sleep 0.5"])
        .stdin(input)
        .stdout(Redirection::Pipe)
        .communicate()
        .unwrap();
    let t = std::time::Instant::now();
    let r = comm.read();
    let el = t.elapsed();
    match r {
        Err(e) if e.kind() == ErrorKind::TimedOut => {
            println!("FAIL: read() without a time limit returned TimedOut after {:?}", el);
            std::process::exit(1);
        }
        other => println!("ok: {:?} after {:?}", other.map(|_| ()).map_err(|e| e.kind()), el),
    }
}
