// C18 (bounded): every child starts with an empty signal mask and SIGPIPE at its default action, whatever the spawning thread has
// blocked and whatever the parent does with SIGPIPE.  The child is `sh`, which reports SigBlk / SigIgn from /proc/$$/status.
// Matrix: 4 masks blocked in the spawning thread x parent SIGPIPE {ignored (the Rust runtime's default), default, handler} x
// how the program is named {bare name via PATH, absolute path, explicit `executable`, Exec::shell} plus first / middle / last stage
// of a pipeline.
use subprocess::{Exec, Popen, PopenConfig, Redirection};

// the reporter reads its OWN status (inherited unchanged from the shell the library started): reading the shell's status from a child
// races with the shell still being inside posix_spawn/vfork, where libc blocks every signal for a moment
const REPORT: &str = "grep -E '^Sig(Blk|Ign)' /proc/self/status";
fn parse(out: &str) -> Option<(u64, u64)> {
    let get = |k: &str| out.lines().find(|l| l.starts_with(k)).and_then(|l| u64::from_str_radix(l.split_whitespace().nth(1)?, 16).ok());
    Some((get("SigBlk:")?, get("SigIgn:")?))
}
extern "C" fn handler(_: libc::c_int) {}
fn main() {
    let (mut checked, mut bad) = (0, 0);
    let masks: [&[libc::c_int]; 4] = [&[], &[libc::SIGPIPE], &[libc::SIGTERM, libc::SIGUSR1], &[libc::SIGPIPE, libc::SIGINT, libc::SIGHUP, libc::SIGCHLD]];
    for (mi, mask) in masks.iter().enumerate() {
        for disp in [1, 0, 2] {     // default first: a disposition looked up once and remembered must not survive the parent changing it
            unsafe {
                libc::signal(libc::SIGPIPE, match disp { 0 => libc::SIG_IGN, 1 => libc::SIG_DFL, _ => handler as *const () as usize });
                let mut set: libc::sigset_t = std::mem::zeroed();
                libc::sigemptyset(&mut set);
                for &s in mask.iter() { libc::sigaddset(&mut set, s); }
                libc::pthread_sigmask(libc::SIG_SETMASK, &set, std::ptr::null_mut());
            }
            let cap = |cfg: PopenConfig, argv: &[&str]| -> String {
                let mut p = Popen::create(argv, PopenConfig { stdout: Redirection::Pipe, ..cfg }).unwrap();
                let (o, _) = p.communicate(None).unwrap();
                p.wait().unwrap();
                o.unwrap_or_default()
            };
            let mut outs: Vec<(String, String)> = vec![
                ("bare name looked up on PATH".into(), cap(PopenConfig::default(), &["sh", "-c", REPORT])),
                ("absolute path".into(), cap(PopenConfig::default(), &["/bin/sh", "-c", REPORT])),
                ("explicit executable".into(), cap(PopenConfig { executable: Some("/bin/sh".into()), ..Default::default() }, &["some-name", "-c", REPORT])),
                ("Exec::shell".into(), Exec::shell(REPORT).stdout(Redirection::Pipe).capture().unwrap().stdout_str()),
            ];
            // pipeline: each stage reports to stderr (captured together), passing its input on
            let stage = |tag: &str| Exec::shell(format!("{} | sed 's/^/{} /' >&2; cat", REPORT, tag));
            let c = (stage("first") | stage("middle") | stage("last")).stdin(subprocess::NullFile).capture().unwrap();
            for tag in ["first", "middle", "last"] {
                let lines: String = c.stderr_str().lines().filter(|l| l.starts_with(tag)).map(|l| l[tag.len() + 1..].to_string() + "\n").collect();
                outs.push((format!("{} stage of a pipeline", tag), lines));
            }
            for (how, out) in outs {
                checked += 1;
                match parse(&out) {
                    None => { println!("FAIL: {}: no report from the child: {:?}", how, out); bad += 1; }
                    Some((blk, ign)) => {
                        let pipe_bit = 1u64 << (libc::SIGPIPE - 1);
                        if blk != 0 || ign & pipe_bit != 0 {
                            if bad < 6 { println!("FAIL: {} (spawning thread blocks mask #{}, parent SIGPIPE {}): the child starts with SigBlk={:016x} SigIgn={:016x}; expected an empty mask and SIGPIPE not ignored", how, mi, ["ignored", "default", "handled"][disp], blk, ign); }
                            bad += 1;
                        }
                    }
                }
            }
        }
    }
    println!("{} children checked, {} with an unclean signal state", checked, bad);
    if bad > 0 { std::process::exit(1); }
    println!("ok");
}
