// C01-C04 (bounded): communicate-style exchanges through the real crate against children with different I/O behaviours.
// For each child behaviour (echo through cat, chunked dd copies, writes to both streams, output before reading input, early close of stdin)
// and input sizes around and far above the pipe capacity: the bytes returned per stream are exactly what the child wrote, the child
// got exactly the input followed by EOF, reads with size limits return consecutive pieces never larger than the limit, and reads with a
// time limit resume without losing or repeating a byte.  A watchdog turns a hang (deadlock) into a failure.
use std::time::{Duration, Instant};
use subprocess::{Exec, Redirection};

fn pattern(n: usize, salt: u8) -> Vec<u8> { (0..n).map(|i| ((i * 31 + salt as usize) % 251) as u8).collect() }
fn main() {
    let progress = std::sync::Arc::new(std::sync::Mutex::new(String::new()));
    let pr = progress.clone();
    std::thread::spawn(move || {
        let mut last = String::new();
        loop {
            std::thread::sleep(Duration::from_secs(10));
            let cur = pr.lock().unwrap().clone();
            if cur == last && !cur.is_empty() { println!("FAIL: exchange does not finish (deadlock or spin): {}", cur); std::process::exit(1); }
            last = cur;
        }
    });
    let (mut checked, mut bad) = (0, 0);
    let sizes = [0usize, 1, 4095, 4096, 4097, 65536, 65537, 300_000];
    // (name, shell command, expects: stdout = input, stderr = input?) -- every child copies its whole stdin
    let children: [(&str, &str, bool); 5] = [
        ("cat", "cat", false),
        ("dd bs=1000", "dd bs=1000 2>/dev/null", false),
        ("dd bs=70000", "dd bs=70000 2>/dev/null", false),
        ("tee to stderr", "tee /dev/stderr", true),
        ("slow reader", "sleep 0.05; cat", false),
    ];
    for (name, cmd, both) in children.iter() {
        for &n in sizes.iter() {
            *progress.lock().unwrap() = format!("{} with {} bytes", name, n);
            let input = pattern(n, 7);
            checked += 1;
            let c = Exec::cmd("sh").arg("-c").arg(cmd).stdin(input.clone()).stdout(Redirection::Pipe).stderr(Redirection::Pipe).capture().unwrap();
            if c.stdout != input || (*both && c.stderr != input) || (!*both && !c.stderr.is_empty()) {
                println!("FAIL: child `{}` with {} input bytes: stdout {} bytes (equal: {}), stderr {} bytes", name, n, c.stdout.len(), c.stdout == input, c.stderr.len());
                bad += 1;
            }
        }
    }
    // a stream that was not piped is reported as absent
    checked += 1;
    let mut p = Exec::cmd("true").stdout(Redirection::Pipe).popen().unwrap();
    let (o, e) = p.communicate_bytes(None).unwrap();
    if o.is_none() || e.is_some() { println!("FAIL: option-ness of results: {:?} {:?}", o.is_some(), e.is_some()); bad += 1; }
    // size limits: consecutive pieces, never more than the limit in total over both streams, concatenation = what the child wrote
    for &limit in [1usize, 7, 4095, 4096, 4097, 100_000].iter() {
        for &n in [0usize, 5000, 70_000].iter() {
            *progress.lock().unwrap() = format!("limit {} with {} bytes", limit, n);
            checked += 1;
            let input = pattern(n, 3);
            let mut comm = Exec::cmd("sh").arg("-c").arg("tee /dev/stderr").stdin(input.clone()).stdout(Redirection::Pipe).stderr(Redirection::Pipe).communicate().unwrap().limit_size(limit);
            let (mut out, mut err) = (vec![], vec![]);
            let mut rounds = 0;
            loop {
                let (o, e) = comm.read().unwrap();
                let (o, e) = (o.unwrap(), e.unwrap());
                if o.len() + e.len() > limit { println!("FAIL: limit {}: one read returned {} + {} bytes", limit, o.len(), e.len()); bad += 1; break; }
                if o.is_empty() && e.is_empty() { break; }
                out.extend(o); err.extend(e);
                rounds += 1;
                if rounds > 2 * (2 * n + 10) { println!("FAIL: limit {}: reads never reach the end", limit); bad += 1; break; }
            }
            if out != input || err != input { println!("FAIL: limit {} with {} bytes: pieces do not add up (stdout {} / stderr {} bytes)", limit, n, out.len(), err.len()); bad += 1; }
        }
    }
    // text variants: the strings are the lossy UTF-8 decoding of exactly the bytes (valid text, sequences cut short at the end of the
    // output with 1, 2 or 3 bytes present, invalid bytes in the middle, lone continuation bytes)
    {
        *progress.lock().unwrap() = "text variants".into();
        let euro = "\u{20ac}".as_bytes().to_vec();       // 3 bytes
        let smile = "\u{1f600}".as_bytes().to_vec();      // 4 bytes
        let mut pats: Vec<Vec<u8>> = vec![b"plain ascii\n".to_vec(), "gr\u{fc}\u{df}e \u{20ac} \u{1f600}\n".as_bytes().to_vec(), vec![], vec![0xff], vec![0x80, b'a', 0xbf], vec![b'a', 0xc3], vec![b'a', 0xe2, 0x82], vec![b'a', 0xf0, 0x9f], vec![b'a', 0xf0, 0x9f, 0x98], vec![0xf0, 0x9f, 0x98, b'a'], vec![0xe2, 0x28, 0xa1], vec![0xc0, 0xaf], vec![0xed, 0xa0, 0x80]];
        for cut in 1..3 { let mut v = b"xy".to_vec(); v.extend(&euro[..cut]); pats.push(v); let mut v = euro.clone(); v.extend(&euro[..cut]); v.push(b'z'); pats.push(v); }
        for cut in 1..4 { let mut v = b"xy".to_vec(); v.extend(&smile[..cut]); pats.push(v); let mut v = vec![0xff]; v.extend(&smile[..cut]); pats.push(v); }
        for pat in pats {
            checked += 1;
            let want = String::from_utf8_lossy(&pat).into_owned();
            let mut comm = Exec::cmd("sh").arg("-c").arg("tee /dev/stderr").stdin(pat.clone()).stdout(Redirection::Pipe).stderr(Redirection::Pipe).communicate().unwrap();
            match comm.read_string() {
                Ok((o, e)) => {
                    if o.as_deref() != Some(want.as_str()) || e.as_deref() != Some(want.as_str()) { println!("FAIL: bytes {:?} come back as text {:?} / {:?}, their lossy decoding is {:?}", pat, o, e, want); bad += 1; }
                }
                Err(e) => { println!("FAIL: read_string failed for {:?}: {:?}", pat, e.kind()); bad += 1; }
            }
        }
    }
    // time limit: a silent child times out no earlier than the limit and only with a limit; reads resume where they stopped
    {
        *progress.lock().unwrap() = "time limits".into();
        checked += 1;
        let input = pattern(200_000, 9);
        let mut comm = Exec::cmd("sh").arg("-c").arg("sleep 0.3; cat; sleep 0.3; echo tail").stdin(input.clone()).stdout(Redirection::Pipe).communicate().unwrap().limit_time(Duration::from_millis(100));
        let mut out = vec![];
        let mut timeouts = 0;
        loop {
            let t = Instant::now();
            match comm.read() {
                Ok((o, _)) => { out.extend(o.unwrap()); break; }
                Err(e) => {
                    if e.kind() != std::io::ErrorKind::TimedOut { println!("FAIL: unexpected error {:?}", e.kind()); bad += 1; break; }
                    if t.elapsed() < Duration::from_millis(99) { println!("FAIL: timeout reported after {:?}, before the 100 ms limit", t.elapsed()); bad += 1; }
                    if t.elapsed() > Duration::from_millis(2000) { println!("FAIL: read with a 100 ms limit returned after {:?}", t.elapsed()); bad += 1; }   // generous: the machine may be loaded
                    out.extend(e.capture.0.clone().unwrap());
                    timeouts += 1;
                    if timeouts > 100 { println!("FAIL: never finishes"); bad += 1; break; }
                }
            }
        }
        let mut want = input.clone(); want.extend_from_slice(b"tail\n");
        if out != want || timeouts < 1 { println!("FAIL: resumed reads returned {} bytes in {} timed-out rounds, expected {} bytes without loss or repetition", out.len(), timeouts, want.len()); bad += 1; }
    }
    // text under a size limit: each call's text is the lossy decoding of exactly the bytes that call took (a multi-byte character cut
    // by the limit is not carried over to the next call, and nothing is held back); the child has written everything and exited before
    // the first read, so the pieces are the consecutive limit-sized slices of its output
    {
        *progress.lock().unwrap() = "text under a size limit".into();
        let data: Vec<u8> = b"a\xc3\xa9b\xe2\x82\xacc\xf0\x9f\x98\x80d".to_vec();
        for &limit in [1usize, 2, 3, 5, 6, 100].iter() {
            checked += 1;
            let mut comm = Exec::cmd("cat").stdin(data.clone()).stdout(Redirection::Pipe).communicate().unwrap().limit_size(limit);
            std::thread::sleep(Duration::from_millis(150));
            // the first read delivers the input too; give the child time to echo everything and exit: drain with byte reads? no -- text only
            let mut pieces: Vec<String> = vec![];
            let mut rounds = 0;
            loop {
                rounds += 1;
                match comm.read_string() {
                    Ok((Some(o), _)) => { if o.is_empty() { break; } pieces.push(o); }
                    Ok((None, _)) => { println!("FAIL: read_string returned no stdout"); bad += 1; break; }
                    Err(e) => { println!("FAIL: read_string under limit {} failed: {:?}", limit, e.kind()); bad += 1; break; }
                }
                if rounds > 100 { println!("FAIL: text reads under limit {} never reach the end", limit); bad += 1; break; }
            }
            // whatever slices the calls took, each piece must be the lossy decoding of a consecutive slice of at most `limit` bytes
            fn fits(data: &[u8], pos: usize, pieces: &[String], limit: usize) -> bool {
                if pieces.is_empty() { return pos == data.len(); }
                (1..=limit.min(data.len() - pos)).any(|take| String::from_utf8_lossy(&data[pos..pos + take]) == pieces[0].as_str() && fits(data, pos + take, &pieces[1..], limit))
            }
            let ok = fits(&data, 0, &pieces, limit);
            let pos = data.len();
            if !ok || pos != data.len() { println!("FAIL: limit {}: the text pieces {:?} are not the lossy decodings of consecutive slices (of at most {} bytes) of {:?}", limit, pieces, limit, data); bad += 1; }
        }
    }
    // a signal handler runs in the reading thread while read() waits: whatever the call had already taken from the pipes is delivered
    // (in the Ok value or in the error's capture) and nothing is lost or repeated over the calls
    {
        *progress.lock().unwrap() = "reads interrupted by signals".into();
        checked += 1;
        extern "C" fn on_usr1(_: libc::c_int) {}
        unsafe {
            let mut sa: libc::sigaction = std::mem::zeroed();
            sa.sa_sigaction = on_usr1 as usize;
            sa.sa_flags = 0;        // no SA_RESTART
            libc::sigaction(libc::SIGUSR1, &sa, std::ptr::null_mut());
        }
        let me = unsafe { libc::pthread_self() } as usize;
        let stop = std::sync::Arc::new(std::sync::atomic::AtomicBool::new(false));
        let stop2 = stop.clone();
        let pinger = std::thread::spawn(move || { while !stop2.load(std::sync::atomic::Ordering::SeqCst) { std::thread::sleep(Duration::from_millis(40)); unsafe { libc::pthread_kill(me as libc::pthread_t, libc::SIGUSR1); } } });
        let mut comm = Exec::cmd("sh").arg("-c").arg("echo first; echo efirst >&2; sleep 0.7; echo second; sleep 0.4; echo third >&2").stdout(Redirection::Pipe).stderr(Redirection::Pipe).communicate().unwrap();
        let (mut out, mut err) = (vec![], vec![]);
        let mut rounds = 0;
        loop {
            rounds += 1;
            match comm.read() {
                Ok((o, e)) => { out.extend(o.unwrap_or_default()); err.extend(e.unwrap_or_default()); break; }
                Err(e) => {
                    let (o, e2) = e.capture.clone();
                    out.extend(o.unwrap_or_default()); err.extend(e2.unwrap_or_default());
                    if e.kind() != std::io::ErrorKind::Interrupted { println!("FAIL: interrupted exchange failed with {:?}", e.kind()); bad += 1; break; }
                }
            }
            if rounds > 500 { println!("FAIL: interrupted reads never reach the end"); bad += 1; break; }
        }
        stop.store(true, std::sync::atomic::Ordering::SeqCst);
        let _ = pinger.join();
        unsafe { libc::signal(libc::SIGUSR1, libc::SIG_DFL); }
        if out != b"first\nsecond\n" || err != b"efirst\nthird\n" { println!("FAIL: reads interrupted by a signal handler lose or repeat data: stdout {:?} stderr {:?} over {} calls", String::from_utf8_lossy(&out), String::from_utf8_lossy(&err), rounds); bad += 1; }
    }
    println!("{} exchanges checked, {} mismatches", checked, bad);
    if bad > 0 { std::process::exit(1); }
    println!("ok");
}
