// C10 (bounded): terminate / kill / send_signal deliver exactly the requested signal to exactly the child, and nothing at all once
// the child's end has been observed.  The program runs itself under `strace -f -e trace=kill,tgkill,tkill` and reads the trace back:
// every signal-sending system call the library makes is on record, with its target and signal number.
//   phase 1: a live child that traps signals gets terminate() -> TERM, send_signal(n) -> n for a set of n, finally kill() -> KILL;
//   phase 2: after wait() / poll() / wait_timeout() reported the end (normal exit, killed, reaped behind the library's back), each of
//            terminate / kill / send_signal returns Ok and no system call is made;
//   markers (kill(own pid, 0)) separate the phases in the trace.
use std::time::Duration;
use subprocess::{ExitStatus, Popen, PopenConfig, Redirection};
use subprocess::unix::PopenExt;

fn marker() { unsafe { libc::kill(libc::getpid(), 0); } }
static GROUP_CHILD: std::sync::atomic::AtomicI32 = std::sync::atomic::AtomicI32::new(0);
fn inner() {
    // watchdog: if a step blocks (a child that never reports a signal it was not sent), end this whole traced process group -- the
    // tracer, this program and its children -- instead of leaving them behind; the outer program reports the failed run
    std::thread::spawn(|| {
        std::thread::sleep(Duration::from_secs(45));
        println!("INNER-TIMEOUT");
        let g = GROUP_CHILD.load(std::sync::atomic::Ordering::SeqCst);
        unsafe { if g > 0 { libc::kill(-g, libc::SIGKILL); } libc::kill(0, libc::SIGKILL); }
    });
    // phase 1
    let mut p = Popen::create(&["sh", "-c", "trap 'echo TERM' TERM; trap 'echo USR1' USR1; trap 'echo HUP' HUP; trap 'echo INT' INT; echo ready; while :; do sleep 0.05; done"], PopenConfig { stdout: Redirection::Pipe, ..Default::default() }).unwrap();
    let pid = p.pid().unwrap();
    println!("SELF {}", std::process::id());
    println!("CHILD {}", pid);
    use std::io::{BufRead, BufReader};
    let mut rd = BufReader::new(p.stdout.take().unwrap());
    let mut line = String::new();
    rd.read_line(&mut line).unwrap();
    let expect_line = |rd: &mut BufReader<std::fs::File>, want: &str| { let mut l = String::new(); rd.read_line(&mut l).unwrap(); println!("GOT {} WANT {}", l.trim(), want); };
    p.terminate().unwrap(); expect_line(&mut rd, "TERM");
    p.send_signal(libc::SIGUSR1).unwrap(); expect_line(&mut rd, "USR1");
    p.send_signal(libc::SIGHUP).unwrap(); expect_line(&mut rd, "HUP");
    p.send_signal(libc::SIGINT).unwrap(); expect_line(&mut rd, "INT");
    p.kill().unwrap();
    let st = p.wait().unwrap();
    println!("STATUS {:?}", st);
    // phase 1b: a child started as the leader of its own process group, with a helper in that group: the signals go to the child
    // itself (its pid), not to the group
    {
        let mut g = Popen::create(&["sh", "-c", "(while :; do sleep 0.05; done) & trap 'echo TERM' TERM; echo ready; while :; do sleep 0.05; done"],
                                  PopenConfig { stdout: Redirection::Pipe, setpgid: true, ..Default::default() }).unwrap();
        println!("GROUPCHILD {}", g.pid().unwrap());
        let gpid = g.pid().unwrap();
        GROUP_CHILD.store(gpid as i32, std::sync::atomic::Ordering::SeqCst);
        let mut rd = BufReader::new(g.stdout.take().unwrap());
        let mut l = String::new();
        rd.read_line(&mut l).unwrap();
        g.terminate().unwrap(); expect_line(&mut rd, "TERM");
        g.kill().unwrap();
        println!("GROUPSTATUS {:?}", g.wait().unwrap());
        unsafe { libc::kill(-(gpid as i32), libc::SIGKILL); }     // the scenario itself clears away the helper (a call made by the scenario, filtered below)
    }
    marker();
    // phase 2: nothing may be sent any more
    println!("AFTER-KILLED {:?} {:?} {:?}", p.terminate().is_ok(), p.kill().is_ok(), p.send_signal(libc::SIGUSR1).is_ok());
    for how in 0..3 {
        let mut q = Popen::create(&["true"], PopenConfig::default()).unwrap();
        println!("CHILD {}", q.pid().unwrap());
        match how { 0 => { q.wait().unwrap(); } 1 => { while q.poll().is_none() { std::thread::sleep(Duration::from_millis(2)); } } _ => { q.wait_timeout(Duration::from_secs(10)).unwrap().unwrap(); } }
        println!("AFTER-EXIT {:?} {:?} {:?}", q.terminate().is_ok(), q.kill().is_ok(), q.send_signal(libc::SIGTERM).is_ok());
    }
    {
        let mut q = Popen::create(&["true"], PopenConfig::default()).unwrap();
        let qp = q.pid().unwrap();
        println!("CHILD {}", qp);
        let mut st = 0;
        unsafe { libc::waitpid(qp as i32, &mut st, 0); }
        let seen = q.poll();
        println!("REAPED-ELSEWHERE {:?} {:?} {:?} {:?}", seen == Some(ExitStatus::Undetermined), q.terminate().is_ok(), q.kill().is_ok(), q.send_signal(libc::SIGTERM).is_ok());
    }
    marker();
}
fn main() {
    if std::env::args().nth(1).as_deref() == Some("--inner") { inner(); return; }
    let trace = std::env::temp_dir().join(format!("verif-c10-{}.trace", std::process::id()));
    let me = std::env::current_exe().unwrap();
    use std::os::unix::process::CommandExt;
    let mut cmd = std::process::Command::new("strace");
    cmd.args(&["-f", "-e", "trace=kill,tgkill,tkill", "-o"]).arg(&trace).arg(&me).arg("--inner");
    // the traced run gets a process group of its own, so that its watchdog can end all of it
    unsafe { cmd.pre_exec(|| { libc::setpgid(0, 0); Ok(()) }); }
    let o = cmd.output().expect("strace is needed for this scenario");
    let out = String::from_utf8_lossy(&o.stdout).to_string();
    let tr = std::fs::read_to_string(&trace).unwrap_or_default();
    let _ = std::fs::remove_file(&trace);
    let mut bad = 0;
    let mut fail = |m: String| { println!("FAIL: {}", m); bad += 1; };
    if !o.status.success() { fail(format!("the traced run failed: {} {}", out, String::from_utf8_lossy(&o.stderr))); }
    // what the child saw
    for l in out.lines().filter(|l| l.starts_with("GOT ")) { let w: Vec<&str> = l.split_whitespace().collect(); if w[1] != w[3] { fail(format!("the child received {} when {} was sent", w[1], w[3])); } }
    if !out.contains("STATUS Signaled(9)") { fail(format!("kill() did not end the child with SIGKILL: {}", out.lines().find(|l| l.starts_with("STATUS")).unwrap_or("no status"))); }
    for l in out.lines().filter(|l| l.starts_with("AFTER-") || l.starts_with("REAPED-")) { if l.contains("false") { fail(format!("a call after the child's end did not return Ok (or Undetermined was not reported): {}", l)); } }
    // the trace: split at the markers (kill(<tracer child>, 0))
    let children: Vec<String> = out.lines().filter(|l| l.starts_with("CHILD ")).map(|l| l[6..].trim().to_string()).collect();
    // only the calls made by the traced program itself (the children are traced too: a shell may signal itself)
    let me_pid = out.lines().find(|l| l.starts_with("SELF ")).map(|l| l[5..].trim().to_string()).unwrap_or_default();
    let lib_calls: Vec<&str> = tr.lines().filter(|l| l.split_whitespace().next() == Some(me_pid.as_str()) && l.contains("kill(") && !l.contains("resumed") && !l.contains("+++") && !l.contains("--- SIG")).collect();
    // (a call that strace prints in two halves -- `kill(pid, 0 <unfinished ...>` -- is still the marker)
    let is_mark = |l: &str| l.contains(", 0)") || l.contains(", SIG_0)") || l.contains(", 0 <unfinished") || l.contains(", SIG_0 <unfinished");
    let marks: Vec<usize> = lib_calls.iter().enumerate().filter(|(_, l)| is_mark(l)).map(|(i, _)| i).collect();
    if marks.len() != 2 || children.len() != 5 { fail(format!("trace not understood: {} markers, {} children\n{}", marks.len(), children.len(), tr)); }
    else {
        let phase1: Vec<&&str> = lib_calls[..marks[0]].iter().filter(|l| !l.contains("sh") || true).collect();
        // phase 1: exactly TERM, USR1, HUP, INT, KILL to the first child -- from the traced parent (the shell's own `kill` builtin is not used)
        let want = ["SIGTERM", "SIGUSR1", "SIGHUP", "SIGINT", "SIGKILL"];
        let to_child: Vec<&&&str> = phase1.iter().filter(|l| l.contains(&format!("kill({},", children[0]))).collect();
        if to_child.len() != want.len() || to_child.iter().zip(want.iter()).any(|(l, w)| !l.contains(w)) { fail(format!("signals sent to the live child: {:?}; expected exactly {:?} in this order", to_child, want)); }
        let gchild = out.lines().find(|l| l.starts_with("GROUPCHILD ")).map(|l| l[11..].trim().to_string()).unwrap_or_default();
        let to_g: Vec<&&&str> = phase1.iter().filter(|l| l.contains(&format!("kill({},", gchild))).collect();
        if to_g.len() != 2 || !to_g[0].contains("SIGTERM") || !to_g[1].contains("SIGKILL") { fail(format!("signals sent to the child that leads its own process group: {:?}; expected exactly SIGTERM and SIGKILL to pid {}", to_g, gchild)); }
        if !out.contains("GROUPSTATUS Signaled(9)") { fail("kill() did not end the group-leading child with SIGKILL".into()); }
        let cleanup = format!("kill(-{}, SIGKILL", gchild);     // (no closing parenthesis: strace may print the call in two halves)
        let stray: Vec<&&&str> = phase1.iter().filter(|l| !l.contains(&format!("kill({},", children[0])) && !l.contains(&format!("kill({},", gchild)) && !l.contains(&cleanup)).collect();
        if !stray.is_empty() { fail(format!("signals sent to something other than the child: {:?}", stray)); }
        // phase 2: nothing
        let after: Vec<&&str> = lib_calls[marks[0] + 1..marks[1]].iter().collect();
        if !after.is_empty() { fail(format!("signals sent after the child's end had been observed: {:?}", after)); }
    }
    println!("6 children checked, {} mismatches", bad);
    if bad > 0 { std::process::exit(1); }
    println!("ok");
}
