// D14 (C12): Exec::capture() / Pipeline::capture() when the exchange itself fails (the child closes its stdin early, so feeding it
// the input data ends with EPIPE) while the child still has more output to write than a pipe holds.  capture() returns the error by
// `?`, which drops the Popen (waiting for the child) BEFORE the Communicator that holds the read ends: the child blocks writing into
// a pipe nobody reads, the wait never ends.
use std::time::{Duration, Instant};
use subprocess::Exec;
fn main() {
    std::thread::spawn(|| {
        std::thread::sleep(Duration::from_secs(10));
        println!("FAIL: capture() of a child that closes stdin early and then writes 300000 bytes still has not returned after 10 s: the child is waited for while the Communicator still holds the unread stdout pipe");
        std::process::exit(1);
    });
    let t = Instant::now();
    let r = Exec::shell("exec 0<&-; sleep 0.2; head -c 300000 /dev/zero").stdin(vec![0u8; 1_000_000]).capture();
    println!("single command: returned is_err={} after {:?}", r.is_err(), t.elapsed());
    let t = Instant::now();
    let r = (Exec::shell("exec 0<&-; sleep 0.2; head -c 300000 /dev/zero") | Exec::cmd("cat")).stdin(vec![0u8; 1_000_000]).capture();
    println!("pipeline: returned is_err={} after {:?}", r.is_err(), t.elapsed());
    println!("ok");
}
