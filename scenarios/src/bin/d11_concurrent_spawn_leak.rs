// D11 (C08): spawns issued from several threads at once.  Pipes are created with pipe() and marked close-on-exec
// afterwards, so a child forked by another thread in between inherits pipe ends that are not its own (the
// launch-status pipe or another child's pipe).  Each child lists its descriptors; any pipe beyond 0-2 is a leak.
// Probabilistic: the window is a few microseconds per spawn.
use std::sync::atomic::{AtomicUsize, Ordering};
use std::sync::Arc;
use subprocess::{Exec, Redirection};
fn main() {
    let threads: usize = std::env::args().nth(1).and_then(|s| s.parse().ok()).unwrap_or(12);
    let iters: usize = std::env::args().nth(2).and_then(|s| s.parse().ok()).unwrap_or(150);
    let leaks = Arc::new(AtomicUsize::new(0));
    let spawns = Arc::new(AtomicUsize::new(0));
    let mut hs = vec![];
    for _ in 0..threads {
        let (leaks, spawns) = (leaks.clone(), spawns.clone());
        hs.push(std::thread::spawn(move || {
            for _ in 0..iters {
                let c = Exec::cmd("sh").args(&["-c", "ls -l /proc/$$/fd"]).stdout(Redirection::Pipe).capture().unwrap();
                spawns.fetch_add(1, Ordering::Relaxed);
                for l in c.stdout_str().lines() {
                    let t: Vec<&str> = l.split_whitespace().collect();
                    if t.len() >= 3 && t[t.len() - 2] == "->" {
                        if let Ok(fd) = t[t.len() - 3].parse::<i32>() {
                            if fd > 2 && t[t.len() - 1].starts_with("pipe:") {
                                if leaks.fetch_add(1, Ordering::Relaxed) < 3 { println!("leaked into a child: fd {} -> {}", fd, t[t.len() - 1]); }
                            }
                        }
                    }
                }
            }
        }));
    }
    for h in hs { h.join().unwrap(); }
    let (l, s) = (leaks.load(Ordering::Relaxed), spawns.load(Ordering::Relaxed));
    println!("{} spawns from {} threads, {} foreign pipe ends seen in children", s, threads, l);
    if l > 0 { println!("FAIL: children inherited pipe ends that are not theirs"); std::process::exit(1); }
    println!("ok (no leak observed in this run)");
}
