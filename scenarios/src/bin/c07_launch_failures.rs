// C07 (bounded): Popen::create returns a handle iff the program image was started; a failed launch reports the operating-system
// error of the step that failed and leaves nothing behind (no child running or unreaped, no descriptor).
//   part 1 -- failures the file system can produce: missing program (bare / absolute / relative), non-executable file, directory,
//             script with a missing interpreter, junk with the execute bit (ENOEXEC), missing / non-directory working directory;
//             each with and without pipes, detached and not.
//   part 2 -- descriptor exhaustion at every step: RLIMIT_NOFILE set to each value from "nothing more" up to "just enough".
//   part 3 -- each child-side step made to fail by fault injection (the program re-runs itself under strace -e inject=...):
//             chdir, setpgid, setgid, setuid, dup2, and the fork itself.
use std::os::unix::fs::PermissionsExt;
use subprocess::{Popen, PopenConfig, PopenError, Redirection};

fn open_fds() -> usize { std::fs::read_dir("/proc/self/fd").unwrap().count() }
fn children_left() -> Option<String> {
    // give a child that is on its way out a moment (the launch itself must already have reaped it, so normally this returns at once)
    let mut st = 0;
    let r = unsafe { libc::waitpid(-1, &mut st, libc::WNOHANG) };
    if r == -1 { None } else if r == 0 { Some("a child of the failed attempt is still running".into()) } else { Some(format!("pid {} of the failed attempt was left unreaped", r)) }
}
fn cfgs() -> Vec<(String, PopenConfig)> {
    let mut v = vec![];
    for pipes in [false, true] { for detached in [false, true] {
        let r = |p: bool| if p { Redirection::Pipe } else { Redirection::None };
        v.push((format!("pipes={} detached={}", pipes, detached), PopenConfig { stdin: r(pipes), stdout: r(pipes), stderr: r(pipes), detached, ..Default::default() }));
    } }
    // a stream merged into an inherited standard stream: the library wraps the parent's own descriptor 1 or 2 for the child
    v.push(("stderr merged into the inherited stdout".into(), PopenConfig { stderr: Redirection::Merge, ..Default::default() }));
    v.push(("stdout merged into the inherited stderr".into(), PopenConfig { stdout: Redirection::Merge, ..Default::default() }));
    v
}
fn expect_err(what: &str, r: Result<Popen, PopenError>, errno: i32, fds0: usize, bad: &mut u32) {
    let mut why = vec![];
    match r {
        Ok(mut p) => { why.push("a handle was returned although the program cannot have started".to_string()); let _ = p.kill(); let _ = p.wait(); }
        Err(PopenError::IoError(e)) => { if e.raw_os_error() != Some(errno) { why.push(format!("the error is {:?}, expected errno {}", e, errno)); } }
        Err(e) => why.push(format!("unexpected error {:?}", e)),
    }
    if let Some(l) = children_left() { why.push(l); while children_left().is_some() {} }
    if open_fds() != fds0 { why.push(format!("{} descriptors open instead of {}", open_fds(), fds0)); }
    if !why.is_empty() { *bad += 1; if *bad <= 8 { println!("FAIL: {}: {}", what, why.join("; ")); } }
}
fn inject_inner(step: &str) {
    // run under strace with the named system call failing in the forked child (or the fork failing in the parent)
    let fds0 = open_fds();
    let mut bad = 0;
    for (cname, c) in cfgs() {
        let (cfg, errno) = match step {
            "chdir" => (PopenConfig { cwd: Some("/tmp".into()), ..c }, libc::EIO),
            "setpgid" => (PopenConfig { setpgid: true, ..c }, libc::EPERM),
            "setgid" => (PopenConfig { setgid: Some(0), ..c }, libc::EPERM),
            "setuid" => (PopenConfig { setuid: Some(0), ..c }, libc::EPERM),
            "dup2" => (PopenConfig { stdout: Redirection::Pipe, ..c }, libc::EIO),
            _ => (c, libc::EAGAIN),
        };
        expect_err(&format!("{} fails ({})", step, cname), Popen::create(&["true"], cfg), errno, fds0, &mut bad);
    }
    println!("INJECTED {} bad={}", step, bad);
    std::process::exit(if bad > 0 { 1 } else { 0 });
}
fn main() {
    if std::env::args().nth(1).as_deref() == Some("--inject") { inject_inner(&std::env::args().nth(2).unwrap()); return; }
    let dir = std::env::temp_dir().join(format!("verif-c07-{}", std::process::id()));
    let _ = std::fs::remove_dir_all(&dir);
    std::fs::create_dir_all(dir.join("adir")).unwrap();
    let mk = |name: &str, content: &str, mode: u32| { let p = dir.join(name); std::fs::write(&p, content).unwrap(); std::fs::set_permissions(&p, std::fs::Permissions::from_mode(mode)).unwrap(); p.display().to_string() };
    let noexec = mk("noexec", "#!/bin/sh\nexit 0\n", 0o644);
    let badinterp = mk("badinterp", "#!/nonexistent/interpreter\n", 0o755);
    let junk = mk("junk", "\u{1}\u{2}\u{3} this is not a program", 0o755);
    let adir = dir.join("adir").display().to_string();
    let (mut checked, mut bad) = (0u32, 0u32);
    let fds0 = open_fds();
    // ---- part 1
    let prog_cases: Vec<(&str, Vec<String>, i32)> = vec![
        ("a bare name found on no PATH entry", vec!["no-such-program-c07".into()], libc::ENOENT),
        ("a missing absolute path", vec!["/nonexistent/dir/prog".into()], libc::ENOENT),
        ("a missing relative path", vec!["./no-such-program-c07".into()], libc::ENOENT),
        ("a file without the execute bit", vec![noexec.clone()], libc::EACCES),
        ("a directory", vec![adir.clone()], libc::EACCES),
        ("a script whose interpreter does not exist", vec![badinterp.clone()], libc::ENOENT),
        ("a file with the execute bit that is no program", vec![junk.clone()], libc::ENOEXEC),
    ];
    for (what, argv, errno) in &prog_cases { for (cname, c) in cfgs() {
        checked += 1;
        expect_err(&format!("{} ({})", what, cname), Popen::create(argv, c), *errno, fds0, &mut bad);
    } }
    for (what, cwd, errno) in [("a working directory that does not exist", "/nonexistent/cwd", libc::ENOENT), ("a working directory that is a file", noexec.as_str(), libc::ENOTDIR)] { for (cname, c) in cfgs() {
        checked += 1;
        expect_err(&format!("{} ({})", what, cname), Popen::create(&["true"], PopenConfig { cwd: Some(cwd.into()), ..c }), errno, fds0, &mut bad);
    } }
    // a program that exists starts, and the handle is real
    for (cname, c) in cfgs() {
        checked += 1;
        match Popen::create(&["true"], c) {
            Ok(mut p) => { p.stdin.take(); let st = p.wait().unwrap(); if !st.success() { println!("FAIL: `true` ({}) ended with {:?}", cname, st); bad += 1; } p.stdout.take(); p.stderr.take(); }
            Err(e) => { println!("FAIL: `true` ({}) could not be started: {:?}", cname, e); bad += 1; }
        }
        while children_left().is_some() {}      // detached handles are not reaped by the library: do it here
    }
    // ---- part 2: descriptor exhaustion
    let mut lim = libc::rlimit { rlim_cur: 0, rlim_max: 0 };
    unsafe { libc::getrlimit(libc::RLIMIT_NOFILE, &mut lim); }
    let saved = lim;
    let highest = std::fs::read_dir("/proc/self/fd").unwrap().filter_map(|e| e.unwrap().file_name().to_string_lossy().parse::<u64>().ok()).max().unwrap();
    for extra in 0..12u64 {
        checked += 1;
        let l = libc::rlimit { rlim_cur: highest + extra, rlim_max: saved.rlim_max };      // (read_dir's own descriptor was the highest)
        unsafe { libc::setrlimit(libc::RLIMIT_NOFILE, &l); }
        let r = Popen::create(&["true"], PopenConfig { stdin: Redirection::Pipe, stdout: Redirection::Pipe, stderr: Redirection::Pipe, ..Default::default() });
        unsafe { libc::setrlimit(libc::RLIMIT_NOFILE, &saved); }
        match r {
            Ok(mut p) => { p.stdin.take(); p.stdout.take(); p.stderr.take(); let _ = p.wait(); }
            Err(PopenError::IoError(e)) if e.raw_os_error() == Some(libc::EMFILE) => {}
            Err(e) => { println!("FAIL: with room for {} more descriptors the launch failed with {:?}, expected EMFILE", extra, e); bad += 1; }
        }
        let mut why = vec![];
        if let Some(l) = children_left() { why.push(l); while children_left().is_some() {} }
        if open_fds() != fds0 { why.push(format!("{} descriptors open instead of {}", open_fds(), fds0)); }
        if !why.is_empty() { println!("FAIL: with room for {} more descriptors: {}", extra, why.join("; ")); bad += 1; }
    }
    // ---- part 3: fault injection
    let me = std::env::current_exe().unwrap();
    for (step, spec) in [("chdir", "chdir:error=EIO"), ("setpgid", "setpgid:error=EPERM"), ("setgid", "setgid:error=EPERM"), ("setuid", "setuid:error=EPERM"), ("dup2", "dup2:error=EIO"), ("fork", "clone:error=EAGAIN")] {
        checked += 1;
        let o = std::process::Command::new("strace").args(&["-f", "-o", "/dev/null", "-e", &format!("trace={}", spec.split(':').next().unwrap()), "-e", &format!("inject={}", spec)]).arg(&me).arg("--inject").arg(step).output().expect("strace is needed");
        let out = String::from_utf8_lossy(&o.stdout);
        if !out.contains(&format!("INJECTED {} bad=0", step)) { print!("{}", out.lines().filter(|l| l.starts_with("FAIL")).map(|l| l.to_string() + "\n").collect::<String>()); println!("FAIL: with {} made to fail: {}", step, out.lines().last().unwrap_or("no output")); bad += 1; }
    }
    let _ = std::fs::remove_dir_all(&dir);
    println!("{} launches checked, {} mismatches", checked, bad);
    if bad > 0 { std::process::exit(1); }
    println!("ok");
}
