// C15 (bounded): program lookup on a real file system.  Three PATH directories, each holding -- under the name `tool` -- nothing, a
// non-executable file, a directory, or an executable script that prints which directory it lives in: all 64 placements, each also with
// empty and duplicate PATH entries interleaved.  The first entry whose candidate can be started must be the one that runs; if none can,
// the launch must fail.  Then: names containing a slash are used as given (relative to the child's cwd) with no search, and the same
// rules apply to an explicit `executable` while argv[0] stays what was given.
use std::fs;
use std::os::unix::fs::PermissionsExt;
use subprocess::{Popen, PopenConfig, Redirection};

fn script(path: &std::path::Path, tag: &str, mode: u32) {
    fs::write(path, format!("#!/bin/sh\necho {} \"$0\"\n", tag)).unwrap();
    fs::set_permissions(path, fs::Permissions::from_mode(mode)).unwrap();
}
fn run(argv: &[&str], cfg: PopenConfig) -> Result<String, String> {
    let mut p = Popen::create(argv, PopenConfig { stdout: Redirection::Pipe, ..cfg }).map_err(|e| e.to_string())?;
    let (o, _) = p.communicate(None).map_err(|e| e.to_string())?;
    p.wait().map_err(|e| e.to_string())?;
    Ok(o.unwrap_or_default().trim().to_string())
}
fn main() {
    let root = std::env::temp_dir().join(format!("verif-c15-{}", std::process::id()));
    let _ = fs::remove_dir_all(&root);
    let dirs: Vec<_> = (1..=3).map(|i| root.join(format!("d{}", i))).collect();
    let mut bad = 0;
    let mut checked = 0;
    for cfg in 0..64u32 {
        let _ = fs::remove_dir_all(&root);
        for d in &dirs { fs::create_dir_all(d).unwrap(); }
        let kinds: Vec<u32> = (0..3).map(|i| (cfg >> (2 * i)) & 3).collect();
        for (i, d) in dirs.iter().enumerate() {
            match kinds[i] {
                0 => {}
                1 => script(&d.join("tool"), &format!("d{}", i + 1), 0o644),
                2 => fs::create_dir(d.join("tool")).unwrap(),
                _ => script(&d.join("tool"), &format!("d{}", i + 1), 0o755),
            }
        }
        let expect = kinds.iter().position(|&k| k == 3).map(|i| format!("d{}", i + 1));
        let d: Vec<String> = dirs.iter().map(|p| p.display().to_string()).collect();
        for path in [format!("{}:{}:{}", d[0], d[1], d[2]), format!(":{}::{}:{}:{}:", d[0], d[1], d[1], d[2]), format!("{}:{}:{}:{}", d[0], d[0], d[1], d[2])] {
            std::env::set_var("PATH", &path);
            checked += 1;
            let got = run(&["tool"], PopenConfig::default());
            let ok = match (&expect, &got) { (Some(e), Ok(g)) => g.starts_with(e.as_str()), (None, Err(_)) => true, _ => false };
            if !ok { if bad < 5 { println!("FAIL: PATH={} candidates {:?} (0 none, 1 not executable, 2 directory, 3 executable): expected {:?}, got {:?}", path, kinds, expect, got); } bad += 1; }
        }
    }
    // names with a slash: no search, relative to the child's working directory
    let _ = fs::remove_dir_all(&root);
    for d in &dirs { fs::create_dir_all(d).unwrap(); }
    script(&dirs[0].join("tool"), "onpath", 0o755);
    fs::create_dir_all(root.join("cwd/sub")).unwrap();
    script(&root.join("cwd/sub/tool"), "incwd", 0o755);
    script(&root.join("cwd/tool"), "cwdtool", 0o755);
    std::env::set_var("PATH", dirs[0].display().to_string());
    let cwd = || PopenConfig { cwd: Some(root.join("cwd").into_os_string()), ..Default::default() };
    let cases: Vec<(&str, Result<String, String>, &str)> = vec![
        ("name with a slash runs the file relative to the child's cwd", run(&["sub/tool"], cwd()), "incwd sub/tool"),
        ("./name is not looked up on PATH", run(&["./tool"], cwd()), "cwdtool ./tool"),
        ("plain name is looked up on PATH, not in the cwd", run(&["tool"], cwd()), "onpath"),
        ("explicit executable without slash is looked up on PATH; argv[0] is what was given", run(&["/some/argv0"], PopenConfig { executable: Some("tool".into()), ..cwd() }), "onpath"),
        ("explicit executable with a slash is used as given although argv[0] has none", run(&["tool"], PopenConfig { executable: Some("sub/tool".into()), ..cwd() }), "incwd"),
    ];
    for (what, got, want) in cases {
        checked += 1;
        if !matches!(&got, Ok(g) if g.starts_with(want)) { println!("FAIL: {}: expected output starting with {:?}, got {:?}", what, want, got); bad += 1; }
    }
    checked += 1;
    if run(&["nosuch/tool"], cwd()).is_ok() { println!("FAIL: a missing path with a slash was resolved by searching PATH"); bad += 1; }
    // a name that is on no PATH entry is not found -- also when a file of that name sits in the child's working directory
    script(&root.join("cwd/onlyincwd"), "cwdonly", 0o755);
    checked += 1;
    match Popen::create(&["onlyincwd"], PopenConfig { stdout: Redirection::Pipe, ..cwd() }) {
        Ok(mut p) => { let _ = p.wait(); println!("FAIL: a name found on no PATH entry was started from the child's working directory"); bad += 1; }
        Err(subprocess::PopenError::IoError(e)) if e.raw_os_error() == Some(libc::ENOENT) => {}
        Err(e) => { println!("FAIL: a name found on no PATH entry must fail with ENOENT, got {:?}", e); bad += 1; }
    }
    // the error reported is that of the last candidate tried: a non-executable file under the only PATH entry gives EACCES
    script(&dirs[0].join("noexec"), "x", 0o644);
    checked += 1;
    match Popen::create(&["noexec"], PopenConfig::default()) {
        Ok(mut p) => { let _ = p.wait(); println!("FAIL: a non-executable file was started"); bad += 1; }
        Err(subprocess::PopenError::IoError(e)) if e.raw_os_error() == Some(libc::EACCES) => {}
        Err(e) => { println!("FAIL: a non-executable candidate must be reported as EACCES, got {:?}", e); bad += 1; }
    }
    // the search uses the PARENT's PATH; a PATH variable in the environment handed to the child does not redirect the lookup
    script(&dirs[1].join("tool"), "childpath", 0o755);
    script(&dirs[1].join("onlychild"), "childpath", 0o755);
    let child_env = || Some(vec![(std::ffi::OsString::from("PATH"), dirs[1].clone().into_os_string())]);
    for (what, got, want) in vec![
        ("the child's own PATH does not redirect the lookup", run(&["tool"], PopenConfig { env: child_env(), ..Default::default() }), Some("onpath")),
        ("a program only on the child's PATH is not found", run(&["onlychild"], PopenConfig { env: child_env(), ..Default::default() }), None),
    ] {
        checked += 1;
        let ok = match (&got, want) { (Ok(g), Some(w)) => g.starts_with(w), (Err(_), None) => true, _ => false };
        if !ok { println!("FAIL: {}: expected {:?}, got {:?}", what, want, got); bad += 1; }
    }
    let _ = fs::remove_dir_all(&root);
    println!("{} lookups checked, {} mismatches", checked, bad);
    if bad > 0 { std::process::exit(1); }
    println!("ok");
}
