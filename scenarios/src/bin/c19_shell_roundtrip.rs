// C19 (bounded): the printable command line of an Exec / Pipeline, evaluated by the real /bin/sh, reproduces exactly the
// program and argument list.  Exhaustive over argument vectors of 1..=2 arguments, each a string of length 0..=3 over a
// 9-letter alphabet of shell-relevant characters, plus a list of hand-picked nasty strings; a pipeline of two commands is
// checked for the ` | ` join.  Prints FAIL and exits 1 on the first mismatch.
use subprocess::Exec;
use std::io::Write;
use std::process::{Command, Stdio};

const ALPHABET: [char; 9] = ['a', ' ', '\'', '"', '$', '*', '\\', '\n', 'é'];

fn strings(max_len: usize) -> Vec<String> {
    let mut out = vec![String::new()];
    let mut frontier = vec![String::new()];
    for _ in 0..max_len {
        let mut next = vec![];
        for s in &frontier { for c in ALPHABET.iter() { let mut t = s.clone(); t.push(*c); next.push(t); } }
        out.extend(next.iter().cloned());
        frontier = next;
    }
    out
}
fn cmdline_of(e: &Exec) -> String {
    let d = format!("{:?}", e);
    d.strip_prefix("Exec { ").and_then(|s| s.strip_suffix(" }")).expect("Debug format of Exec").to_string()
}
// evaluate many command lines with ONE shell: each line becomes `set -- <line>; <print argv NUL-separated, record-separated>`
fn eval_batch(lines: &[String]) -> Vec<Vec<String>> {
    let mut script = String::new();
    for l in lines {
        script.push_str("set -- ");
        script.push_str(l);
        script.push_str("\nprintf '%s\\0' \"$@\"; printf '\\1'\n");
    }
    let mut child = Command::new("sh").stdin(Stdio::piped()).stdout(Stdio::piped()).spawn().unwrap();
    child.stdin.take().unwrap().write_all(script.as_bytes()).unwrap();
    let out = child.wait_with_output().unwrap();
    let text = String::from_utf8(out.stdout).unwrap();
    text.split('\u{1}').filter(|_| true).map(|rec| { let mut v: Vec<String> = rec.split('\0').map(|s| s.to_string()).collect(); v.pop(); v }).collect()
}
fn main() {
    let singles = strings(3);
    let nasty = ["", " ", "''", "'", "a b", "$HOME", "`id`", "a\nb", "*", "~", "#x", "-n", "a'b'c", "\\", "\\'", "é ü", "!", ";", "&", "|", ">", "(", "=x", "a=b"];
    let mut vectors: Vec<Vec<String>> = vec![];
    for s in &singles { vectors.push(vec!["prog".into(), s.clone()]); }
    for s in strings(1).iter() { for t in strings(2).iter() { vectors.push(vec!["prog".into(), s.clone(), t.clone()]); } }
    for s in nasty.iter() { vectors.push(vec!["prog".into(), s.to_string()]); vectors.push(vec![s.to_string(), "x".into()]); }
    // the empty program name cannot be run, but must still be printed faithfully
    let mut lines = vec![];
    for v in &vectors {
        let mut e = Exec::cmd(&v[0]);
        for a in &v[1..] { e = e.arg(a); }
        lines.push(cmdline_of(&e));
    }
    let mut bad = 0;
    for chunk in (0..vectors.len()).collect::<Vec<_>>().chunks(2000) {
        let got = eval_batch(&chunk.iter().map(|&i| lines[i].clone()).collect::<Vec<_>>());
        for (k, &i) in chunk.iter().enumerate() {
            if got.get(k) != Some(&vectors[i]) {
                if bad < 5 { println!("FAIL: argv {:?} is printed as `{}`, which sh evaluates to {:?}", vectors[i], lines[i], got.get(k)); }
                bad += 1;
            }
        }
    }
    // pipeline: stages in order joined by ` | `
    let p = Exec::cmd("a b").arg("x") | Exec::cmd("c").arg("'");
    let d = format!("{:?}", p);
    let want = format!("Pipeline {{ {} | {} }}", cmdline_of(&Exec::cmd("a b").arg("x")), cmdline_of(&Exec::cmd("c").arg("'")));
    if d != want { println!("FAIL: pipeline printed as {} instead of {}", d, want); bad += 1; }
    // longer pipelines, in every way of composing them: the stages appear in order, joined by ` | `
    let stage = |i: usize| Exec::cmd(format!("prog{}", i)).arg(format!("arg {}", i)).arg("'");
    for n in 2..=5usize {
        let want = format!("Pipeline {{ {} }}", (0..n).map(|i| cmdline_of(&stage(i))).collect::<Vec<_>>().join(" | "));
        let mut shapes: Vec<(&str, subprocess::Pipeline)> = vec![("from_exec_iter", subprocess::Pipeline::from_exec_iter((0..n).map(stage)))];
        let mut left = stage(0) | stage(1);
        for i in 2..n { left = left | stage(i); }
        shapes.push(("a | b | c ...", left));
        if n >= 4 { let mut right = stage(2) | stage(3); for i in 4..n { right = right | stage(i); } shapes.push(("(a | b) | (c | d ...)", (stage(0) | stage(1)) | right)); }
        for (how, p) in shapes {
            let d = format!("{:?}", p);
            if d != want { println!("FAIL: a pipeline of {} commands built as {} is printed as {} instead of {}", n, how, d, want); bad += 1; }
        }
    }
    println!("{} argument vectors checked through /bin/sh, {} mismatches", vectors.len(), bad);
    if bad > 0 { std::process::exit(1); }
    println!("ok");
}
