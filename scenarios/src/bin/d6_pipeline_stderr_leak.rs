// D6 (C08): Pipeline::capture() creates a pipe for the stages' stderr; its READ end belongs to the parent and
// must not be inherited by the stages.  Stage 0 lists its own open descriptors; a read end of the pipe behind
// its stderr among them is the parent's end, leaked.
use subprocess::Exec;
fn main() {
    let c = (Exec::cmd("sh").args(&["-c", "ls -l /proc/$$/fd"]) | Exec::cmd("cat")).capture().unwrap();
    let listing = c.stdout_str();
    let mut stderr_pipe = None;
    let mut rows = vec![];
    for l in listing.lines() {
        let t: Vec<&str> = l.split_whitespace().collect();
        if t.len() >= 3 && t[t.len() - 2] == "->" {
            let fd: i32 = match t[t.len() - 3].parse() { Ok(n) => n, Err(_) => continue };
            let target = t[t.len() - 1].to_string();
            if fd == 2 { stderr_pipe = Some(target.clone()); }
            rows.push((fd, t[0].to_string(), target));
        }
    }
    let sp = stderr_pipe.expect("stage 0 has a stderr");
    let leaked: Vec<_> = rows.iter().filter(|(fd, mode, target)| *fd > 2 && mode.starts_with("lr-") && *target == sp).collect();
    println!("stage 0 descriptors: {:?}", rows);
    if !leaked.is_empty() {
        println!("FAIL: stage 0 holds the parent's read end of the stderr pipe {}: {:?}", sp, leaked);
        std::process::exit(1);
    }
    println!("ok");
}
