// C16 (bounded): the command finally run by an Exec is what a straightforward model of the builder calls predicts.  Every sequence
// of up to 4 edits out of {env(A,1), env(A,2), env(B,1), env_remove(A), env_remove(B), env_clear, env_extend([(A,3),(B,3)]), arg(x), arg(y)}
// is applied to a fresh Exec (the parent has A=parent, B unset) and also to a clone taken half-way; the child reports A, B and its
// arguments.  The model: an ordered list of edits on a copy of the environment, last value wins, removed names absent.
use subprocess::{Exec, Redirection};

#[derive(Clone, Copy, Debug)]
enum Op { EnvA1, EnvA2, EnvB1, RmA, RmB, Clear, Extend, ArgX, ArgY }
const OPS: [Op; 9] = [Op::EnvA1, Op::EnvA2, Op::EnvB1, Op::RmA, Op::RmB, Op::Clear, Op::Extend, Op::ArgX, Op::ArgY];

fn apply(e: Exec, op: Op) -> Exec {
    match op {
        Op::EnvA1 => e.env("A", "1"), Op::EnvA2 => e.env("A", "2"), Op::EnvB1 => e.env("B", "1"),
        Op::RmA => e.env_remove("A"), Op::RmB => e.env_remove("B"), Op::Clear => e.env_clear(),
        Op::Extend => e.env_extend(&[("A", "3"), ("B", "3")]), Op::ArgX => e.arg("x"), Op::ArgY => e.arg("y z"),
    }
}
#[derive(Clone, PartialEq, Debug)]
struct Model { a: Option<String>, b: Option<String>, args: Vec<String> }
fn model(m: &mut Model, op: Op) {
    match op {
        Op::EnvA1 => m.a = Some("1".into()), Op::EnvA2 => m.a = Some("2".into()), Op::EnvB1 => m.b = Some("1".into()),
        Op::RmA => m.a = None, Op::RmB => m.b = None, Op::Clear => { m.a = None; m.b = None; }
        Op::Extend => { m.a = Some("3".into()); m.b = Some("3".into()); }
        Op::ArgX => m.args.push("x".into()), Op::ArgY => m.args.push("y z".into()),
    }
}
fn observe(e: Exec) -> Model {
    // /bin/sh is named by absolute path because env_clear removes PATH
    let c = e.stdout(Redirection::Pipe).capture().unwrap();
    let out = c.stdout_str();
    let mut lines = out.lines();
    let val = |s: &str| if s == "<unset>" { None } else { Some(s.to_string()) };
    let a = val(lines.next().unwrap());
    let b = val(lines.next().unwrap());
    Model { a, b, args: lines.map(|s| s.to_string()).collect() }
}
fn main() {
    std::env::set_var("A", "parent");
    std::env::remove_var("B");
    let base = || Exec::cmd("/bin/sh").arg("-c").arg("echo \"${A-<unset>}\"; echo \"${B-<unset>}\"; for x in \"$@\"; do echo \"$x\"; done").arg("sh");
    let mut seqs: Vec<Vec<Op>> = vec![vec![]];
    let mut frontier = seqs.clone();
    for _ in 0..3 {
        let mut next = vec![];
        for s in &frontier { for op in OPS.iter() { let mut t = s.clone(); t.push(*op); next.push(t); } }
        seqs.extend(next.iter().cloned());
        frontier = next;
    }
    let (mut checked, mut bad) = (0, 0);
    for s in &seqs {
        let mut e = base();
        let mut m = Model { a: Some("parent".into()), b: None, args: vec![] };
        let half = s.len() / 2;
        let mut cl = None;
        for (i, op) in s.iter().enumerate() {
            if i == half { cl = Some((e.clone(), m.clone())); }
            e = apply(e, *op);
            model(&mut m, *op);
        }
        checked += 1;
        let got = observe(e);
        if got != m { if bad < 5 { println!("FAIL: after {:?} the child saw {:?}, the model predicts {:?}", s, got, m); } bad += 1; }
        // the clone taken half-way is an independent, equivalent command: later edits of the original do not reach it
        if let Some((c, cm)) = cl {
            if s.len() >= 2 {
                checked += 1;
                let got = observe(c);
                if got != cm { if bad < 5 { println!("FAIL: a clone taken after {:?} saw {:?}, the model predicts {:?}", &s[..half], got, cm); } bad += 1; }
            }
        }
    }
    // Exec::shell passes its string as one single argument
    checked += 1;
    let c = Exec::shell("printf '%s|' \"$0\" \"$#\"; echo a   b").stdout(Redirection::Pipe).capture().unwrap();
    if c.stdout_str().trim() != "sh|0|a b" { println!("FAIL: Exec::shell output {:?}", c.stdout_str()); bad += 1; }
    // ... byte for byte: a command string, an argument and an environment value that are not valid UTF-8 reach the child unchanged
    {
        use std::os::unix::ffi::OsStrExt;
        checked += 1;
        let raw: &[u8] = b"caf\xe9 \xff\xfe na\xefve";
        let mut script = b"printf '%s' '".to_vec(); script.extend_from_slice(raw); script.push(b'\'');
        let c = Exec::shell(std::ffi::OsStr::from_bytes(&script)).stdout(Redirection::Pipe).capture().unwrap();
        if c.stdout != raw { println!("FAIL: Exec::shell with a command string that is not valid UTF-8: the shell printed {:?}, the string contains {:?}", c.stdout, raw); bad += 1; }
        checked += 1;
        let c = Exec::cmd("sh").arg("-c").arg("printf '%s|%s' \"$1\" \"$V\"").arg("sh").arg(std::ffi::OsStr::from_bytes(raw)).env("V", std::ffi::OsStr::from_bytes(raw)).stdout(Redirection::Pipe).capture().unwrap();
        let mut want = raw.to_vec(); want.push(b'|'); want.extend_from_slice(raw);
        if c.stdout != want { println!("FAIL: an argument and an environment value that are not valid UTF-8 arrive as {:?}, expected {:?}", c.stdout, want); bad += 1; }
    }
    println!("{} command descriptions checked against the model, {} mismatches", checked, bad);
    if bad > 0 { std::process::exit(1); }
    println!("ok");
}
