// D13 (C14): Pipeline::capture() on a pipeline whose second command cannot be started, while the first command writes more to
// its standard error than a pipe holds.  capture() created the shared stderr pipe and holds its read end; the failed-start cleanup
// inside Pipeline::popen() waits for the first command, which is blocked writing into that pipe: nobody reads it.
use std::time::{Duration, Instant};
use subprocess::Exec;
fn main() {
    std::thread::spawn(|| {
        std::thread::sleep(Duration::from_secs(8));
        println!("FAIL: (head -c 300000 /dev/zero >&2 | no-such-command).capture() still has not returned after 8 s: the started command is waited for while the parent holds the unread stderr pipe it writes to");
        std::process::exit(1);
    });
    let t = Instant::now();
    let r = (Exec::shell("head -c 300000 /dev/zero >&2") | Exec::cmd("/nonexistent/program-d13")).capture();
    assert!(r.is_err(), "the pipeline must fail to start");
    println!("ok: capture() returned the error after {:?}", t.elapsed());
}
