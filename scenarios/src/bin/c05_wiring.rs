// C05 (bounded): every combination of redirections for the three standard streams wires the child to the requested objects.
// The child is `sh`, which writes where its descriptors 0, 1, 2 point (readlink /proc/$$/fd/N) into a report file.  For each stream:
// inherited => the parent's own descriptor target; Pipe => a pipe whose other end is the one exposed on the Popen (same inode, and
// data really flows); File / RcFile => that very file (its path); Merge => the same object as the other output stream.  The Popen
// exposes a parent end exactly for the piped streams.  All 5 x 5 x 5 settings minus the documented invalid ones (Merge on stdin,
// Merge on both outputs), which must be refused without starting anything.
use std::fs::File;
use std::rc::Rc;
use subprocess::{Popen, PopenConfig, Redirection};

fn link(pid: &str, fd: i32) -> String { std::fs::read_link(format!("/proc/{}/fd/{}", pid, fd)).map(|p| p.display().to_string()).unwrap_or_default() }
fn main() {
    let dir = std::env::temp_dir().join(format!("verif-c05-{}", std::process::id()));
    let _ = std::fs::remove_dir_all(&dir);
    std::fs::create_dir_all(&dir).unwrap();
    let report = dir.join("report");
    let script = format!("a=$(readlink /proc/$$/fd/0); b=$(readlink /proc/$$/fd/1); c=$(readlink /proc/$$/fd/2); printf '%s\\n' \"$a\" \"$b\" \"$c\" > {}", report.display());
    let (mut checked, mut bad) = (0, 0);
    let names = ["None", "Pipe", "File", "RcFile", "Merge"];
    for si in 0..5 { for so in 0..5 { for se in 0..5 {
        let shared = Rc::new(File::create(dir.join("shared")).unwrap());    // one RcFile object, possibly given to several streams
        let mk = |k: usize, which: &str| -> Redirection { match k {
            0 => Redirection::None, 1 => Redirection::Pipe,
            2 => Redirection::File(if which == "in" { std::fs::write(dir.join("in"), b"x").unwrap(); File::open(dir.join("in")).unwrap() } else { File::create(dir.join(which)).unwrap() }),
            3 => Redirection::RcFile(Rc::clone(&shared)), _ => Redirection::Merge } };
        let what = format!("stdin={} stdout={} stderr={}", names[si], names[so], names[se]);
        let cfg = PopenConfig { stdin: mk(si, "in"), stdout: mk(so, "out"), stderr: mk(se, "err"), ..Default::default() };
        let invalid = si == 4 || (so == 4 && se == 4);
        checked += 1;
        let _ = std::fs::remove_file(&report);
        let mut p = match Popen::create(&["sh", "-c", &script], cfg) {
            Ok(p) => { if invalid { println!("FAIL: {}: an invalid combination started a process", what); bad += 1; let mut p = p; let _ = p.wait(); continue; } p }
            Err(e) => { if !invalid { println!("FAIL: {}: refused: {}", what, e); bad += 1; } else if report.exists() { println!("FAIL: {}: refused, but a process ran", what); bad += 1; } continue; }
        };
        let me = std::process::id().to_string();
        // the parent ends: exactly for Pipe
        let ends = [(si, p.stdin.is_some()), (so, p.stdout.is_some()), (se, p.stderr.is_some())];
        let mut why = vec![];
        for (n, (k, has)) in ends.iter().enumerate() { if *has != (*k == 1) { why.push(format!("the Popen {} a parent end for stream {}", if *has { "exposes" } else { "lacks" }, n)); } }
        use std::os::unix::io::AsRawFd;
        let parent_end = [p.stdin.as_ref().map(|f| link(&me, f.as_raw_fd())), p.stdout.as_ref().map(|f| link(&me, f.as_raw_fd())), p.stderr.as_ref().map(|f| link(&me, f.as_raw_fd()))];
        p.stdin.take();
        p.wait().unwrap();
        let got: Vec<String> = std::fs::read_to_string(&report).unwrap_or_default().lines().map(|l| l.to_string()).collect();
        if got.len() != 3 { println!("FAIL: {}: no report from the child", what); bad += 1; continue; }
        let want_of = |n: usize, k: usize, got: &Vec<String>| -> Option<String> { match k {
            0 => Some(link(&me, n as i32)),
            1 => parent_end[n].clone(),                       // both ends of a pipe show the same pipe:[inode]
            2 => Some(dir.join(["in", "out", "err"][n]).display().to_string()),
            3 => Some(dir.join("shared").display().to_string()),
            _ => Some(got[if n == 1 { 2 } else { 1 }].clone()),     // Merge: whatever the other output stream is
        } };
        for (n, k) in [(0, si), (1, so), (2, se)] {
            let want = want_of(n, k, &got);
            if want.as_deref() != Some(got[n].as_str()) { why.push(format!("the child's descriptor {} is {:?}, expected {:?}", n, got[n], want)); }
        }
        // Merge must resolve to what the OTHER stream was asked to be, not merely agree with it
        if so == 4 { let w = want_of(2, se, &got); if w.as_deref() != Some(got[1].as_str()) { why.push(format!("stdout merged into stderr is {:?}, stderr was to be {:?}", got[1], w)); } }
        if se == 4 { let w = want_of(1, so, &got); if w.as_deref() != Some(got[2].as_str()) { why.push(format!("stderr merged into stdout is {:?}, stdout was to be {:?}", got[2], w)); } }
        if !why.is_empty() { if bad < 6 { println!("FAIL: {}: {}", what, why.join("; ")); } bad += 1; }
    } } }
    // the parent's own standard streams are still open afterwards (inherit / merge must not close them)
    for n in 0..3 { if link(&std::process::id().to_string(), n).is_empty() { println!("FAIL: the parent's descriptor {} was closed by the spawns", n); bad += 1; } }
    let _ = std::fs::remove_dir_all(&dir);
    println!("{} redirection combinations checked, {} mismatches", checked, bad);
    if bad > 0 { std::process::exit(1); }
    println!("ok");
}
