// D5 (C07): a launch that fails (program does not exist) must leave no child behind -- also when `detached`
// was requested.  After the failed create() the parent asks the kernel for any child of its own.
use subprocess::{Popen, PopenConfig};
fn main() {
    let mut bad = false;
    for detached in [false, true] {
        let r = Popen::create(&["/nonexistent/program"], PopenConfig { detached, ..Default::default() });
        assert!(r.is_err(), "the launch must fail");
        drop(r);
        std::thread::sleep(std::time::Duration::from_millis(100));
        let mut st = 0;
        let pid = unsafe { libc::waitpid(-1, &mut st, libc::WNOHANG) };
        if pid > 0 {
            println!("detached={}: FAIL: child {} of the failed attempt was left as a zombie (status {:#x})", detached, pid, st);
            bad = true;
        } else {
            println!("detached={}: ok, no child left (waitpid -> {}, {})", detached, pid, std::io::Error::last_os_error());
        }
    }
    if bad { std::process::exit(1); }
}
