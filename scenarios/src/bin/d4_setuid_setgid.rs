// D4 (C06): a privileged parent asks for both a user id and a group id; the child must run with both.
// Needs root (skipped otherwise).
use subprocess::{Exec, ExecExt, Redirection};
fn main() {
    if unsafe { libc::geteuid() } != 0 { println!("skipped: not root"); return; }
    let r = Exec::cmd("id").setuid(1000).setgid(1000).stdout(Redirection::Pipe).capture();
    match r {
        Ok(c) => {
            let s = c.stdout_str();
            if s.contains("uid=1000") && s.contains("gid=1000") { println!("ok: {}", s.trim()); }
            else { println!("FAIL: child identity is {}", s.trim()); std::process::exit(1); }
        }
        Err(e) => { println!("FAIL: launch failed although the parent is privileged: {}", e); std::process::exit(1); }
    }
}
