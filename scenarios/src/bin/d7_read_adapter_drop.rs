// D7 (C12): dropping a read adapter while the child still has output to write must not hang: the adapter is the
// only owner of the read end, so its drop has to close it before waiting for the child.
use std::io::Read;
use std::time::{Duration, Instant};
use subprocess::{Exec, Redirection};
fn watchdog(what: &'static str) {
    std::thread::spawn(move || {
        std::thread::sleep(Duration::from_secs(4));
        println!("FAIL: dropping the {} adapter is still blocked after 4 s (child is blocked writing into the pipe nobody reads)", what);
        std::process::exit(1);
    });
}
fn main() {
    let which = std::env::args().nth(1).unwrap_or_else(|| "stdout".into());
    let t = Instant::now();
    match which.as_str() {
        "stdout" => {
            watchdog("stream_stdout");
            let mut s = Exec::cmd("sh").args(&["-c", "head -c 1000000 /dev/zero; sleep 0.1"]).stream_stdout().unwrap();
            let mut b = [0u8; 10];
            s.read_exact(&mut b).unwrap();
            drop(s);
        }
        "stderr" => {
            watchdog("stream_stderr");
            let mut s = Exec::cmd("sh").args(&["-c", "head -c 1000000 /dev/zero >&2; sleep 0.1"]).stream_stderr().unwrap();
            let mut b = [0u8; 10];
            s.read_exact(&mut b).unwrap();
            drop(s);
        }
        _ => {
            watchdog("pipeline stream_stdout");
            let mut s = (Exec::cmd("sh").args(&["-c", "head -c 1000000 /dev/zero"]) | Exec::cmd("cat")).stdout(Redirection::Pipe).stream_stdout().unwrap();
            let mut b = [0u8; 10];
            s.read_exact(&mut b).unwrap();
            drop(s);
        }
    }
    println!("ok: adapter dropped after {:?}", t.elapsed());
}
