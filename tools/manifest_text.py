NOTES = ("Exit status 2 of ./check means a tool problem (lost anchor, unsupported construct, resource limit, vacuous contract) and is never an alarm. "
         "known_findings.json lists recorded findings and fixed defects. DESIGN.md explains the approach.")
_COMM_NOTE = ("Trusted: the exchange model units/models/exchange.rs (Linux pipe read/write/poll semantics on three slots, virtual clock), "
              "finite child output, Rust drop closes a File, usize arithmetic precondition. posix::poll wrapper and PollFd are shimmed by their contract. "
              "The cfg(windows) helper-thread variant is not covered.")
CHECKS = {
 "C01": dict(text="Unbounded deductive proof (Verus) on the real text of maybe_poll/do_read/read_into: every read/write/poll call site satisfies the blocking discipline (only I/O on a stream a poll reported ready, or the only live stream without deadline; writes <= PIPE_BUF; a blocking poll covers every live stream) for every poll outcome, and the loop has a decreasing measure, so the exchange terminates once the child's finite output is consumed.",
             design_ref="DESIGN.md section 4 C01", note=_COMM_NOTE, technique="Verus contracts + loop invariant + decreases on mechanically extracted real code"),
 "C02": dict(text="Unbounded deductive proof (Verus): read_into's postconditions state that each output vector grows by exactly the bytes consumed from that stream's pipe, in order, that an absent stream is untouched, that the accepted input is always a prefix of the supplied input under short writes, and that stdin is closed in the iteration in which the last byte is accepted.",
             design_ref="DESIGN.md section 4 C02", note=_COMM_NOTE, technique="Verus contracts (representation invariant comm_wf) on mechanically extracted real code"),
 "C03": dict(text="Unbounded deductive proof (Verus): read_into adds at most the allowance to the two vectors, do_read consumes no more than the allowance from the pipe, Ok below the limit implies all streams at EOF, and comm_wf is preserved on every exit so successive reads continue where the last one stopped.",
             design_ref="DESIGN.md section 4 C03", note=_COMM_NOTE, technique="Verus contracts + loop invariant on mechanically extracted real code"),
 "C04": dict(text="Unbounded deductive proof (Verus): TimedOut is returned only when a deadline exists and has passed to ms granularity; every poll is entered before the deadline with a timeout that does not exceed it; I/O is licensed only by a poll entered before the deadline (overrun bounded by one iteration); comm_wf holds on error exits (resumable).",
             design_ref="DESIGN.md section 4 C04", note=_COMM_NOTE, technique="Verus contracts with a virtual clock in the ghost OS state, on mechanically extracted real code"),
}
NOT_APPLICABLE = {}
