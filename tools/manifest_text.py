NOTES = ("Exit status 2 of ./check means a tool problem (lost anchor, unsupported construct, resource limit, vacuous contract) and is never an alarm. "
         "known_findings.json lists recorded findings and fixed defects. DESIGN.md explains the approach.")
_COMM_NOTE = ("Trusted: the exchange model units/models/exchange.rs (Linux pipe read/write/poll semantics on three slots, virtual clock), "
              "finite child output, Rust drop closes a File, usize arithmetic precondition. posix::poll wrapper and PollFd are shimmed by their contract. "
              "The cfg(windows) helper-thread variant is not covered.")
CHECKS = {
 "C01": dict(text="Unbounded deductive proof (Verus) on the real text of maybe_poll/do_read/read_into: every read/write/poll call site satisfies the blocking discipline (only I/O on a stream a poll reported ready, or the only live stream without deadline; writes <= PIPE_BUF; a blocking poll covers every live stream) for every poll outcome, and the loop has a decreasing measure, so the exchange terminates once the child's finite output is consumed.",
             design_ref="DESIGN.md section 4 C01", note=_COMM_NOTE, technique="Verus contracts + loop invariant + decreases on mechanically extracted real code"),
 "C02": dict(text="Unbounded deductive proof (Verus): read_into's postconditions state that each output vector grows by exactly the bytes consumed from that stream's pipe, in order, that an absent stream is untouched, that the accepted input is always a prefix of the supplied input under short writes, and that stdin is closed in the iteration in which the last byte is accepted.",
             design_ref="DESIGN.md section 4 C02", note=_COMM_NOTE, technique="Verus contracts (representation invariant comm_wf) on mechanically extracted real code"),
 "C03": dict(text="Unbounded deductive proof (Verus): read_into adds at most the allowance to the two vectors, do_read consumes no more than the allowance from the pipe, Ok below the limit implies all streams at EOF, and comm_wf is preserved on every exit so successive reads continue where the last one stopped.",
             design_ref="DESIGN.md section 4 C03", note=_COMM_NOTE, technique="Verus contracts + loop invariant on mechanically extracted real code"),
 "C04": dict(text="Unbounded deductive proof (Verus): TimedOut is returned only when a deadline exists and has passed to ms granularity; every poll is entered before the deadline with a timeout that does not exceed it; I/O is licensed only by a poll entered before the deadline (overrun bounded by one iteration); comm_wf holds on error exits (resumable).",
             design_ref="DESIGN.md section 4 C04", note=_COMM_NOTE, technique="Verus contracts with a virtual clock in the ghost OS state, on mechanically extracted real code"),
}
_PS_NOTE = ("Trusted: the one-child process model units/models/procstate.rs (waitpid/kill/sleep/clock contracts = W-contracts of the src/posix.rs wrappers), "
            "std Result::unwrap_or spec, trait methods emitted as inherent methods, Drop::drop verified as drop_impl. Liveness of the child is not modelled.")
CHECKS.update({
 "C09": dict(text="Unbounded deductive proof (Verus) that every public query/wait method of Popen preserves the representation invariant popen_wf (a status is held only after waitpid returned it for our pid, and it is the kernel's status, or Undetermined after ECHILD), that a finished handle never changes and issues no OS call (final_is_final: world state unchanged), and that pid()/exit_status() project the state; any call sequence therefore preserves it.",
             design_ref="DESIGN.md section 4 C09", note=_PS_NOTE, technique="Verus contracts: representation invariant over a ghost process model, on mechanically extracted real code"),
 "C10": dict(text="Unbounded deductive proof (Verus): terminate/kill/send_signal append exactly one (pid, SIGTERM|SIGKILL|sig) to the ghost kill log while the handle is Running and leave the world untouched when Finished; posix::kill's model precondition (our pid, child not yet observed dead) is checked at the only call site.",
             design_ref="DESIGN.md section 4 C10", note=_PS_NOTE, technique="Verus contracts with a ghost call log, on mechanically extracted real code"),
 "C11": dict(text="Unbounded deductive proof (Verus) of the wait_timeout loop with a virtual clock: Ok(None) only at or after entry+dur, zero duration means one non-blocking waitpid and no sleep (poll never blocks), every sleep is positive, at most 100 ms and never past the deadline (model preconditions of sleep), one sleep between consecutive status checks, loop terminates (decreases deadline-now).",
             design_ref="DESIGN.md section 4 C11", note=_PS_NOTE, technique="Verus loop invariant + decreases over a virtual clock, on mechanically extracted real code"),
})
NOT_APPLICABLE = {}
