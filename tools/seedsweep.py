#!/usr/bin/env python3
"""seedsweep -- run every kept seeded change (/verif/seeded/<name>/patch.diff) against the check of its property (tools/seedtest.py),
record the outcome in the change's meta.json (check_result) and in seeded/INDEX.json, and print one line per change.
usage: seedsweep.py [-j N] [NAME ...]        (default: all)"""
import json, os, re, subprocess, sys
from concurrent.futures import ThreadPoolExecutor
V = os.path.dirname(os.path.dirname(os.path.abspath(__file__)))
S = os.path.join(V, "seeded")
args = sys.argv[1:]
jobs = 3
if args[:1] == ["-j"]:
    jobs = int(args[1]); args = args[2:]
names = args or sorted(d for d in os.listdir(S) if os.path.exists(os.path.join(S, d, "patch.diff")))


def one(name):
    meta = json.load(open(os.path.join(S, name, "meta.json")))
    p = meta["property"]
    r = subprocess.run([sys.executable, os.path.join(V, "tools", "seedtest.py"), p, os.path.join(S, name, "patch.diff")], capture_output=True, text=True)
    line = (r.stdout.strip().split("\n") or [""])[-1]
    m = re.search(r"check=(C\d+) rc=(\d+) ?(.*)$", line)
    rc, what = (int(m.group(2)), m.group(3).strip()) if m else (None, line[-300:])
    verdict = {0: "MISSED (check exits 0)", 1: "DETECTED (VIOLATION)", 2: "NOT DECIDED (tool problem, exit 2)"}.get(rc, "not run: " + line[-200:])
    meta["check_result"] = dict(command="tools/seedtest.py %s seeded/%s/patch.diff  (= ./check %s against a scratch copy of /repo with the patch applied)" % (p, name, p),
                                outcome=verdict, first_failed_obligation=what[:500])
    json.dump(meta, open(os.path.join(S, name, "meta.json"), "w"), indent=1)
    print("%s %s rc=%s %s" % (name, p, rc, what[:200]), flush=True)
    return name


with ThreadPoolExecutor(jobs) as ex:
    list(ex.map(one, names))
idx = []
for d in sorted(os.listdir(S)):
    mp = os.path.join(S, d, "meta.json")
    if os.path.exists(mp):
        m = json.load(open(mp))
        idx.append(dict(name=d, property=m["property"], round=m.get("round"), summary=m.get("summary"), first_run=(m.get("first_run") or {}).get("outcome"),
                        outcome=(m.get("check_result") or {}).get("outcome"), obligation=((m.get("check_result") or {}).get("first_failed_obligation") or "")[:300]))
json.dump(idx, open(os.path.join(S, "INDEX.json"), "w"), indent=1)
print("%d changes: %s" % (len(idx), ", ".join("%s %d" % (k, sum(1 for i in idx if (i["outcome"] or "").startswith(k))) for k in ("DETECTED", "MISSED", "NOT DECIDED"))))
