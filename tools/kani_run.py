#!/usr/bin/env python3
"""kani_run -- run Kani harnesses on a scratch copy of /repo's working tree.

The scratch copy receives add-only injections, all under cfg(kani) (set by cargo-kani only):
  * end of src/posix.rs : `use crate::verif_kani::libc_model as libc;` (shadows the extern crate for every libc:: path
    in that file) and the harness module h_posix
  * end of src/lib.rs   : `mod verif_kani { pub mod libc_model; pub mod common; }`
  * other harness modules as listed in INJECT
Usage: kani_run.py [--repo /repo] [--keep] [--playback] HARNESS...      prints one JSON object
"""
import json, os, re, shutil, subprocess, sys, tempfile, time

VERIF = os.path.dirname(os.path.dirname(os.path.abspath(__file__)))
K = os.path.join(VERIF, "kani")

# (file, anchor or None=append at end, text)
INJECT = [
    ("src/lib.rs", None, '#[cfg(kani)]\nmod verif_kani {\n    #[path = "%s/libc_model.rs"]\n    pub mod libc_model;\n    #[path = "%s/common.rs"]\n    pub mod common;\n}\n' % (K, K)),
    ("src/posix.rs", None, '#[cfg(kani)]\nuse crate::verif_kani::libc_model as libc;\n#[cfg(kani)]\n#[path = "%s/h_posix.rs"]\nmod verif_h_posix;\n' % K),
    ("src/popen.rs", None, '#[cfg(kani)]\n#[path = "%s/h_popen.rs"]\nmod verif_h_popen;\n' % K),
    ("src/popen.rs", "mod os {", '    #[cfg(kani)]\n    #[path = "%s/h_popen_os.rs"]\n    mod verif_h_popen_os;\n' % K),
    ("src/builder.rs", "mod exec {", '    #[cfg(kani)]\n    #[path = "%s/h_exec.rs"]\n    mod verif_h_exec;\n' % K),
    ("src/builder.rs", "mod pipeline {", '    #[cfg(kani)]\n    #[path = "%s/h_pipeline.rs"]\n    mod verif_h_pipeline;\n' % K),
]


def make_scratch(repo):
    d = tempfile.mkdtemp(prefix="verif-kani-")
    for n in ("src", "Cargo.toml", "Cargo.lock", "tests", "examples"):
        s = os.path.join(repo, n)
        if os.path.isdir(s):
            shutil.copytree(s, os.path.join(d, n))
        elif os.path.exists(s):
            shutil.copy(s, os.path.join(d, n))
    os.makedirs(os.path.join(d, ".cargo"), exist_ok=True)
    open(os.path.join(d, ".cargo", "config.toml"), "w").write("[net]\noffline = true\n")
    injected = []
    for f, anchor, txt in INJECT:
        m = re.search(r'#\[path = "([^"]+)"\]', txt)
        paths = re.findall(r'#\[path = "([^"]+)"\]', txt)
        if any(not os.path.exists(p) for p in paths):
            continue  # harness file not written yet
        p = os.path.join(d, f)
        s = open(p).read()
        if anchor is None:
            s = s + ("\n" if not s.endswith("\n") else "") + txt
        else:
            # the unix twin: first occurrence preceded by #[cfg(unix)] if there are two
            idx = [m.start() for m in re.finditer(re.escape(anchor), s)]
            idx = [i for i in idx if "#[cfg(windows)]" not in s[max(0, i - 40):i]]
            if not idx:
                raise SystemExit("kani_run: LOST ANCHOR %r in %s" % (anchor, f))
            i = idx[0] + len(anchor)
            s = s[:i] + "\n" + txt + s[i:]
        open(p, "w").write(s)
        injected.append((f, anchor))
    return d, injected


def run(harnesses, repo="/repo", keep=False, playback=False, jobs=8, timeout=900):
    t0 = time.time()
    d, injected = make_scratch(repo)
    env = dict(os.environ, CARGO_NET_OFFLINE="true", CARGO_TARGET_DIR=os.path.join(VERIF, ".cache", "kani-target"))
    args = ["cargo", "kani", "-Z", "function-contracts", "-Z", "stubbing", "-j", str(jobs), "--output-format", "terse"]
    if playback:
        args += ["-Z", "concrete-playback", "--concrete-playback=print"]
    for h in harnesses:
        args += ["--harness", h]
    lock = None
    try:
        import signal, fcntl
        # one cargo-kani at a time per /verif: concurrent checks share the Kani target directory; the time spent waiting for the
        # lock does not count against the harness timeout
        os.makedirs(os.path.join(VERIF, ".cache"), exist_ok=True)
        lock = open(os.path.join(VERIF, ".cache", "kani.lock"), "w")
        fcntl.flock(lock, fcntl.LOCK_EX)
        pr = subprocess.Popen(args, cwd=d, env=env, stdout=subprocess.PIPE, stderr=subprocess.STDOUT, text=True, start_new_session=True)
        try:
            out, _ = pr.communicate(timeout=timeout)
            rc = pr.returncode
        except subprocess.TimeoutExpired:
            os.killpg(pr.pid, signal.SIGKILL)   # cargo-kani, kani-driver, cbmc
            out, _ = pr.communicate()
            out = (out or "") + "\nTIMEOUT after %ds" % timeout
            rc = 124
    finally:
        if lock is not None:
            lock.close()
        if not keep:
            shutil.rmtree(d, ignore_errors=True)
    res = parse(out, harnesses)
    res.update(cmd=" ".join(args), rc=rc, wall=round(time.time() - t0, 1), scratch=d if keep else None, injected=injected)
    if rc not in (0, 1) or res["compile_error"]:
        res["raw_tail"] = out[-6000:]
    return res


def parse(out, harnesses):
    res = {"harnesses": {}, "compile_error": False}
    # with -j the per-harness reports of different threads interleave line by line: regroup by thread
    per = {}
    order = []
    last = "-"
    for line in out.split("\n"):
        m = re.match(r"^Thread (\d+): ?(.*)$", line)
        # only the first line of each (atomic) print carries the prefix
        tid, txt = (m.group(1), m.group(2)) if m else (last, line)
        last = tid
        if txt.startswith("Checking harness "):
            key = (tid, len(order))
            order.append(key)
            per[key] = []
            per[("cur", tid)] = key
        k = per.get(("cur", tid))
        if k is not None:
            per[k].append(txt)
    out = "\n".join("\n".join(per[k]) for k in order)
    blocks = re.split(r"(?m)^Checking harness ", out)
    for b in blocks[1:]:
        name = b.split("...")[0].strip().split("::")[-1]
        h = dict(full=b.split("...")[0].strip(), status="unknown", checks=0, failed=0, covers_ok=0, covers=0, failed_checks=[], time=None, playback=None)
        m = re.search(r"\*\* (\d+) of (\d+) failed", b)
        if m:
            h["failed"], h["checks"] = int(m.group(1)), int(m.group(2))
        m = re.search(r"\*\* (\d+) of (\d+) cover properties satisfied", b)
        if m:
            h["covers_ok"], h["covers"] = int(m.group(1)), int(m.group(2))
        m = re.search(r"VERIFICATION:- (\w+)", b)
        if m:
            h["status"] = m.group(1)
        m = re.search(r"Verification Time: ([0-9.]+)s", b)
        if m:
            h["time"] = float(m.group(1))
        h["failed_checks"] = re.findall(r"(?m)^Failed Checks: (.*)$", b)
        m = re.search(r"Concrete playback unit test for.*?```(.*?)```", b, re.S)
        if m:
            h["playback"] = m.group(1).strip()
        if "unwinding assertion" in " ".join(h["failed_checks"]):
            h["status"] = "UNWIND"
        # a failure that consists only of "construct X is not supported by Kani" is a tool limit, not a refuted obligation
        if h["status"] == "FAILED" and h["failed_checks"] and all(re.search(r"not currently supported by Kani|is not supported|unsupported", c) for c in h["failed_checks"]):
            h["status"] = "UNSUPPORTED"
        res["harnesses"][name] = h
    if not all(h in res["harnesses"] for h in harnesses):
        res["compile_error"] = True
    return res


if __name__ == "__main__":
    import argparse
    ap = argparse.ArgumentParser()
    ap.add_argument("harness", nargs="+")
    ap.add_argument("--repo", default="/repo")
    ap.add_argument("--keep", action="store_true")
    ap.add_argument("--playback", action="store_true")
    ap.add_argument("-j", type=int, default=8)
    a = ap.parse_args()
    r = run(a.harness, a.repo, a.keep, a.playback, a.j)
    print(json.dumps(r, indent=1))
