#!/usr/bin/env python3
"""mkseeded -- materialize /verif/seeded/<prop>-<n>/ from the sub-agents' output, my own confirmation run (tools/confirm_seed.py)
and the result of running the property's check against the change (tools/seedtest.py)."""
import json, os, re, shutil, sys
V = os.path.dirname(os.path.dirname(os.path.abspath(__file__)))
conf = {}
for l in open(sys.argv[1]):          # confirm_seeds.jsonl
    try:
        d = json.loads(l)
        conf[(d["property"], d["mutation"])] = d
    except Exception:
        pass
res = {}
for l in open(sys.argv[2]):          # seed_final.txt
    m = re.match(r"(C\d+) wt-C\d+-out/(m\d)/patch.diff check=(C\d+) rc=(\d+) ?(.*)$", l.strip())
    if m:
        res[(m.group(1), m.group(2))] = dict(rc=int(m.group(4)), what=m.group(5).strip())
rows = []
for (p, m), c in sorted(conf.items()):
    src = "/tmp/wt-%s-out/%s" % (p, m)
    ok = all(c.get(k) for k in ("applies", "compiles", "tests_pass", "demo_passes_without_patch", "demo_fails_with_patch"))
    if not ok:
        print("not confirmed, skipped:", p, m, c)
        continue
    dst = os.path.join(V, "seeded", "%s-%s" % (p, m))
    os.makedirs(dst, exist_ok=True)
    shutil.copy(os.path.join(src, "patch.diff"), dst)
    shutil.copy(os.path.join(src, "demo.rs"), dst)
    try:
        am = json.load(open(os.path.join(src, "meta.json")))
    except Exception:
        am = {}
    r = res.get((p, m), {})
    verdict = {0: "MISSED (check exits 0)", 1: "DETECTED (VIOLATION)", 2: "NOT DECIDED (tool problem, exit 2)"}.get(r.get("rc"), "not run")
    meta = dict(
        property=p, summary=am.get("summary"), needs=am.get("needs"), files=am.get("files"), author="independent sub-agent given only the property text and a scratch worktree",
        confirmed_by_me=dict(applies=c["applies"], compiles=c["compiles"], existing_tests_pass=c["tests_pass"], demo_passes_without_patch=c["demo_passes_without_patch"],
                             demo_fails_with_patch=c["demo_fails_with_patch"], how="tools/confirm_seed.py in the scratch worktree at /repo's HEAD: git apply; cargo build; cargo test --offline; demo as examples/demo (standalone rustc for C20) with and without the patch"),
        check_result=dict(command="tools/seedtest.py %s patch.diff  (= ./check %s against a scratch copy of /repo with the patch applied)" % (p, p), outcome=verdict, first_failed_obligation=r.get("what", "")[:400]),
    )
    json.dump(meta, open(os.path.join(dst, "meta.json"), "w"), indent=1)
    rows.append((p, m, am.get("summary") or "", verdict, r.get("what", "")))
json.dump([dict(property=p, mutation=m, summary=s, outcome=v, obligation=w[:300]) for p, m, s, v, w in rows], open(os.path.join(V, "seeded", "INDEX.json"), "w"), indent=1)
for p, m, s, v, w in rows:
    print("| %s-%s | %s | %s | %s |" % (p, m, s.replace("|", "/")[:150], v.split(" ")[0], w.replace("|", "/")[:140]))
