"""What decides which property: Verus units, Kani harnesses, replay scenarios, trusted base.

Kept as data so that MANIFEST.json, the check driver and the evidence writer agree.
"""

# --------------------------------------------------------------------------------------------- Verus units
# unit name -> template under units/, rlimit, the functions whose entry must be reachable (vacuity twins)
UNITS = {
    "comm": dict(template="units/comm.vt.rs", rlimit=300, portfolio=4, tops=["RawCommunicator::read_into", "maybe_poll", "Communicator::read", "poll"],
                 about="the poll()-driven exchange loop of communicate.rs (unix variant) against the exchange model"),
    "spawn": dict(template="units/spawn.vt.rs", rlimit=400, portfolio=3, tops=["Popen::create", "os_start", "do_exec", "Popen::setup_streams"],
                  about="Popen::create / os_start / setup_streams / do_exec / set_inheritable / make_pipe against the spawn world (descriptor sets, child image, launch-status pipe)"),
    "builder": dict(template="units/builder.vt.rs", rlimit=300, portfolio=4, tops=["Pipeline::popen", "Pipeline::capture", "Exec::capture", "Exec::popen"],
                    about="Exec builder methods and terminators, stream adapters and their drop glue, Pipeline (composition, popen loop, join, capture, communicate, stream_*) against the builder world (log of started stages)"),
    "exec": dict(template="units/exec.vt.rs", rlimit=100, tops=["PrepExec::exec", "prep_exec"],
                 about="posix::prep_exec / PrepExec::new / exec / assemble_exe: which program paths are tried, in which order, with what buffer capacity"),
    "splitpath": dict(template="units/splitpath.vt.rs", rlimit=50, tops=["split_path"],
                      about="the tokenizer closure of posix::split_path, verified as the function it is, against the recursive definition of PATH segments"),
    "quote": dict(template="units/quote.vt.rs", rlimit=50, tops=["Exec::display_escape", "Exec::to_cmdline_lossy", "debug_fmt"],
                  about="Exec::display_escape / nice_char: the result is one shell word for the string; Exec::to_cmdline_lossy: the text is the environment prefix, the quoted program and every argument preceded by one blank and quoted, in order"),
    "wincmd": dict(template="units/wincmd.vt.rs", rlimit=50, tops=["assemble_cmdline", "append_quoted"],
                   about="the cfg(windows) functions assemble_cmdline / append_quoted against the Microsoft command-line parsing rules written as a recursive spec function; the round trip is a proved lemma"),
    "pstate": dict(template="units/pstate.vt.rs", rlimit=50, tops=["os_wait_timeout", "waitpid", "send_signal", "drop"],
                   about="the Popen child-state machine (waitpid/wait/wait_timeout/poll/terminate/kill/send_signal/Drop) against the one-child process model"),
}

# --------------------------------------------------------------------------------------------- properties
PROPS = {
    "C01": dict(units=["comm", "builder"], tagged_units=["builder"], kani=["w_poll_passthrough"], level="proof",
                bounded_scenarios=[("c02_exchange_model", "90 exchanges through the real crate: 5 child behaviours (cat, dd bs=1000, dd bs=70000, tee to stderr, slow reader) x 8 input sizes (0 .. 300000), 18 size-limit runs (6 limits x 3 sizes, two streams), 23 byte patterns (valid text, multi-byte sequences cut short at the end, invalid bytes) through read_string against String::from_utf8_lossy, 6 size limits cutting multi-byte characters under read_string (each piece = the lossy decoding of a consecutive slice), one resumed time-limited exchange, one exchange whose reads are interrupted by a signal handler every 40 ms (captures of Ok and Err add up); a watchdog turns a hang into a failure")]),
    "C02": dict(units=["comm", "builder"], tagged_units=["builder"], kani=["w_poll_passthrough"], level="proof",
                bounded_scenarios=[("c02_exchange_model", "90 exchanges through the real crate: 5 child behaviours (cat, dd bs=1000, dd bs=70000, tee to stderr, slow reader) x 8 input sizes (0 .. 300000), 18 size-limit runs (6 limits x 3 sizes, two streams), 23 byte patterns (valid text, multi-byte sequences cut short at the end, invalid bytes) through read_string against String::from_utf8_lossy, 6 size limits cutting multi-byte characters under read_string (each piece = the lossy decoding of a consecutive slice), one resumed time-limited exchange, one exchange whose reads are interrupted by a signal handler every 40 ms (captures of Ok and Err add up); a watchdog turns a hang into a failure")]),
    "C03": dict(units=["comm"], kani=["w_poll_passthrough"], level="proof",
                bounded_scenarios=[("c02_exchange_model", "90 exchanges through the real crate: 5 child behaviours (cat, dd bs=1000, dd bs=70000, tee to stderr, slow reader) x 8 input sizes (0 .. 300000), 18 size-limit runs (6 limits x 3 sizes, two streams), 23 byte patterns (valid text, multi-byte sequences cut short at the end, invalid bytes) through read_string against String::from_utf8_lossy, 6 size limits cutting multi-byte characters under read_string (each piece = the lossy decoding of a consecutive slice), one resumed time-limited exchange, one exchange whose reads are interrupted by a signal handler every 40 ms (captures of Ok and Err add up); a watchdog turns a hang into a failure")]),
    "C04": dict(units=["comm"], kani=["w_poll_passthrough"], level="proof",
                bounded_scenarios=[("c02_exchange_model", "90 exchanges through the real crate: 5 child behaviours (cat, dd bs=1000, dd bs=70000, tee to stderr, slow reader) x 8 input sizes (0 .. 300000), 18 size-limit runs (6 limits x 3 sizes, two streams), 23 byte patterns (valid text, multi-byte sequences cut short at the end, invalid bytes) through read_string against String::from_utf8_lossy, 6 size limits cutting multi-byte characters under read_string (each piece = the lossy decoding of a consecutive slice), one resumed time-limited exchange, one exchange whose reads are interrupted by a signal handler every 40 ms (captures of Ok and Err add up); a watchdog turns a hang into a failure")]),
    "C05": dict(units=["spawn"], kani=["w_make_standard_stream", "w_dup2", "w_pipe", "w_set_inheritable"], level="proof",
                bounded_scenarios=[("c05_wiring", "all 125 settings of (stdin, stdout, stderr) over {inherit, pipe, file, shared file, merge} through the real crate: the child reports where its descriptors 0..2 point (/proc), compared with the parent's own streams, the inode of the pipe end exposed on the Popen, the file's path, the other stream; the 45 documented invalid settings must be refused without starting anything")]),
    "C06": dict(units=["spawn", "exec", "builder"], kani=["w_fork_ids", "w_os_to_cstring_b4", "w_chdir"], level="proof",
                bounded_scenarios=[("c15_path_lookup", "the explicit-executable cases of the PATH lookup scenario: argv[0] is what was given while the named executable is what runs, with and without slashes in either"),
                                   ("c16_builder_model", "1633 command descriptions: every sequence of up to 3 of 9 builder edits (env/env_remove/env_clear/env_extend/arg), each also through a clone taken half-way, run through the real crate and /bin/sh against a plain model; a shell command string, an argument and an environment value that are not valid UTF-8 arrive byte for byte")],
                natives=[("units/native/format_env.nt.rs", "9331 environment lists: all lists of 0..5 entries over the names {A,B,CC} and the values {empty, x}"),
                         ("units/native/cvec.nt.rs", "11132 argument vectors: 0..3 strings of length 0..3 (pairs/triples 0..2) over the bytes {a, /, NUL, 0xff}; pointer table read back through raw pointers")]),
    "C07": dict(units=["spawn", "exec"], kani=["w_pipe", "w_fork_ids", "w_waitpid"], level="proof",
                bounded_scenarios=[("c07_launch_failures", "78 launches through the real crate: 9 kinds of unstartable program / working directory x {pipes, no pipes} x {detached, not} and x {stderr merged into the inherited stdout, stdout merged into the inherited stderr}, descriptor exhaustion at 12 RLIMIT_NOFILE settings, and chdir / setpgid / setgid / setuid / dup2 / fork made to fail by strace fault injection; the error must carry the errno of the failed step, no child may be left running or unreaped, no descriptor left open")]),
    "C15": dict(units=["exec", "splitpath"], kani=["b_split_path_b3"], level="proof",
                bounded_scenarios=[("c15_path_lookup", "202 lookups on a real file system: all 64 placements of {nothing, non-executable file, directory, executable} under 3 PATH directories x 3 PATH spellings (plain, with empty and duplicate entries), 6 slash / explicit-executable cases, a name that exists only in the child's cwd (ENOENT), a non-executable only candidate (EACCES), and a child environment whose PATH differs from the parent's")]),
    "C17": dict(units=["spawn", "exec"], kani=["w_chdir"], level="proof",
                bounded_scenarios=[("c17_child_allocs", "216 spawns with a counting allocator armed in the forked child: 9 PATH shapes (longest entry first/middle/last/single/40 entries/empty entries/empty PATH) x 3 cwd lengths (none, 4, 500 bytes) x 4 program names (found on PATH, not found, absolute path, missing relative path with a slash) x {small, 50 args + 60 env entries + pipes}")]),
    "C20": dict(units=["wincmd"], kani=[], level="proof",
                natives=[("units/native/wincmd.nt.rs", "28907 argument vectors: 1 argument of length 0..4, pairs (length 0..2, first 400 of length 0..4) and triples of length 0..2 over the alphabet {a, space, tab, newline, double quote, backslash, U+00E9}; 57 arguments containing NUL")]),
    "C19": dict(units=["quote"], kani=[], level="proof",
                bounded_scenarios=[("c19_shell_roundtrip", "1778 argument vectors (1-2 arguments of length 0..3 over the alphabet a,space,',\",$,*,\\,newline,e-acute, plus 24 hand-picked strings) printed through Debug and evaluated by the real /bin/sh; the Debug output of pipelines of 2..5 commands in every composition shape (iterator, left-nested |, pipeline | pipeline)")]),
    "C18": dict(units=["spawn"], kani=["w_reset_sigpipe"], level="proof",
                bounded_scenarios=[("c18_signal_state", "84 children through the real crate: 4 signal masks blocked in the spawning thread x parent SIGPIPE {ignored, default, handled} x {bare name, absolute path, explicit executable, Exec::shell, first / middle / last pipeline stage}; SigBlk must be empty and SIGPIPE not ignored in /proc/$$/status")]),
    "C12": dict(units=["builder", "pstate", "spawn"], tagged_units=["spawn"], kani=["w_reset_sigpipe"], level="proof",
                bounded_scenarios=[("c12_handle_cleanup", "45 owning handles through the real crate: dropped Popen, join, capture of a command and of a pipeline against 6 child behaviours (cat; ignores input; closes stdin early then writes 300000 bytes to stdout / to stderr; floods stderr then cat; closes its outputs early and keeps working) x 3 input sizes (none, 20, 1000000 bytes), the five stream adapters dropped early; each must return within seconds and leave no child running or unreaped")]),
    "C13": dict(units=["builder", "spawn", "pstate"], tagged_units=["spawn", "pstate"], kani=["w_dup2", "w_pipe"], level="proof",
                bounded_scenarios=[("c13_pipeline_shapes", "16 pipelines: a first stage that refuses its input and writes later (a result reported as Ok must be complete); 2..5 stages in every composition shape (iterator, left-nested |, pipeline|pipeline, Pipeline|Exec) through the real crate and sh; join/capture against a first stage that closes its streams and keeps working")]),
    "C14": dict(units=["builder", "spawn", "pstate"], tagged_units=["spawn", "pstate"], kani=[], level="proof",
                bounded_scenarios=[("c14_partial_failure", "127 failing pipelines: started commands with a stderr pipe of their own that they fill (every end held for a started command is released before the wait); n = 2..4 `cat` stages, every failing position, stdin null/pipe/data, popen/join/capture/communicate/stream_stdout/stream_stdin, and for capture/communicate also started commands that first write 300000 bytes to their stderr; promptness, no child left, descriptor count")]),
    "C16": dict(units=["builder", "spawn"], tagged_units=["spawn"], bounded_scenarios=[("c16_builder_model", "1633 command descriptions: every sequence of up to 3 of 9 builder edits (env/env_remove/env_clear/env_extend/arg), each also through a clone taken half-way, run through the real crate and /bin/sh against a plain model; a shell command string, an argument and an environment value that are not valid UTF-8 arrive byte for byte")],
                kani=["r_exec_stdin_refuses", "r_exec_stdout_refuses", "r_exec_stderr_refuses", "r_exec_terminators_refuse_data", "w_exec_stdin_accepts"], level="proof"),
    "C08": dict(units=["spawn", "builder"], kani=["w_pipe", "w_set_inheritable", "w_make_standard_stream"], level="proof",
                bounded_scenarios=[("c08_fd_audit", "2 x 49 descriptor tables read back from real children (/proc/$$/fd): single commands under all 8 inherit/pipe combinations alone and with three other Popens alive, 4 merge variants, a child spawned while three exchanges (communicate_start, Exec::communicate, Pipeline::communicate) are set up and unfinished, every stage of 2..4-command pipelines run by join / capture / stream_stdout, 100 children spawned concurrently from four threads; all of it a second time in a parent whose descriptors 0 and 2 are closed; a child may hold 0, 1, 2 and nothing else")]),
    "C09": dict(units=["pstate"], kani=["w_decode_exit_status", "w_waitpid"], level="proof",
                bounded_scenarios=[("c09_status_matrix", "303 children through the real crate: every exit code 0..255 through wait / wait_timeout / poll, 20 fatal signals with and without core dumps, a stopped child (never reported as finished), a child reaped behind the library's back, 4 detached children queried after other children were started and reaped, a blocking wait disturbed by a signal handler every 30 ms; every later query in every order must repeat the status and pid() must be gone")]),
    "C10": dict(units=["pstate"], kani=["w_kill", "w_waitpid"], level="proof",
                bounded_scenarios=[("c10_signals", "6 children under strace -e trace=kill (one of them the leader of its own process group with a helper in the group: the signals go to the pid, not to the group): terminate / send_signal(USR1, HUP, INT) / kill reach a trapping child as exactly those signals and nothing else is signalled; after the end was observed by wait / poll / wait_timeout (exit, SIGKILL, reaped elsewhere) the three calls return Ok and make no system call")]),
    "C11": dict(units=["pstate"], kani=["w_waitpid"], level="proof",
                bounded_scenarios=[("c11_status_checks", "one run under strace: 40 waits of 900 us, 10 of 2.5 ms, one of 250 ms and 20 polls on a live child; wait4 and nanosleep system calls are counted")]),
}

# --------------------------------------------------------------------------------------------- replay scenarios
# (property, regex on obligation id) -> scenario binary (scenarios/src/bin/<name>.rs) and what it shows.
# A scenario exits 1 and prints FAIL when the real crate, built from /repo's working tree, misbehaves.
SCENARIOS = [
    ("C15", r"exec:.*exec:.*(err is Err|r is Err)", "d10_path_only_empty_entries"),
    ("C07", r"exec:.*exec:.*(err is Err|r is Err)", "d10_path_only_empty_entries"),
    ("C17", r"exec:.*(cap@|capacity)", "d9_cwd_alloc"),
    ("C08", r"kani:w_pipe:", "d11_concurrent_spawn_leak"),
    ("C08", r"builder:.*(inh_ok|is_given_obj|inheritable)", "d6_pipeline_stderr_leak"),
    ("C08", r"spawn:.*inheritable", "d11_concurrent_spawn_leak"),
    ("C12", r"builder:.*(drop_impl|drop_glue_read|drop_glue_popen).*", "d7_read_adapter_drop"),
    ("C14", r"builder:.*setup_communicate:.*(no_parked|popen_releasing)", "d13_capture_stderr_flood"),
    ("C12", r"builder:.*setup_communicate:.*(no_parked|popen_releasing)", "d13_capture_stderr_flood"),
    ("C14", r"builder:.*popen_releasing:.*(no_parked|all_wait_safe|release_on_failure)", "d13_capture_stderr_flood"),
    ("C12", r"builder:.*popen_releasing:.*(no_parked|all_wait_safe|release_on_failure)", "d13_capture_stderr_flood"),
    ("C12", r"builder:.*capture:precondition:drop_glue_(popen|vec_popen):", "d14_capture_error_hang"),
    ("C14", r"builder:.*capture:precondition:drop_glue_(popen|vec_popen):", "d14_capture_error_hang"),
    ("C14", r"builder:.*popen:precondition:drop_glue_vec_popen:.*all_wait_safe", "d8_pipeline_partial_failure"),
    ("C12", r"builder:.*popen:precondition:drop_glue_vec_popen:.*all_wait_safe", "d8_pipeline_partial_failure"),
    ("C05", r"spawn:.*setup_streams:ensures:stdout is Merge && stderr is Merge", "d1_merge_merge"),
    ("C06", r"spawn:.*do_exec:precondition:setgid:.*uid\.is_none", "d4_setuid_setgid"),
    ("C07", r"spawn:.*(create|os_start):ensures:r is Err .*child_unreaped", "d5_detached_zombie"),
    ("C17", r"spawn:.*precondition:(set_current_dir|chdir|os_to_cstring|prep_exec|format_env_opt):", "d9_cwd_alloc"),
    ("C04", r"comm:.*maybe_poll:ensures:.*deadline\.is_some\(\) && final\(w\)\.s\.now \+ 1_000_000", "d2_pollerr_timeout"),
    ("C04", r"comm:.*read_into:.*(precondition|requires).*old\(w\)\.s\.now < deadline", "d3_deadline_flood"),
]

# --------------------------------------------------------------------------------------------- assumptions
# free-text trusted base per unit (in addition to the mechanically listed external_body/axiom items)
UNIT_TRUST = {
    "wincmd": [
        "the Microsoft rules (units/models/winparse.rs: parse_arg / parse_all / skip_ws) are a transcription of the documented 2008+ C runtime rules, which CommandLineToArgvW shares for every argument after the program name; argv[0]'s special rule is outside the statement. The same rules run as executable code in the bounded native check, which ties the transcription to 28907 concrete vectors",
        "platform shims (units/models/winshims.rs): an OsString is its UTF-16 code units; encode_wide / Iterator::any / collect / OsString::from_wide / io::Error::from_raw_os_error by their std contracts; R6: cmdline.extend(arg.encode_wide()) = extend_wide (appends the units)",
        "precondition: every argument is at most 0x3fffffff units long -- `num_backslashes` is an i32 and `num_backslashes * 2 + 1` must not overflow (CreateProcessW limits the whole command line to 32767 units, so longer arguments cannot reach a child)",
        "the code is compiled only on Windows; it is verified here as extracted text against the shims, never run on Windows",
    ],
    "splitpath": [
        "R9': split_path returns std::iter::from_fn(closure); the closure body is verified as a function whose captured `mut path` is the parameter `path: &mut &OsStr` (assignments `path = e` become `*path = e`); that from_fn calls the closure once per next() is std",
        "R6: bytes.iter().position(|&c| c == b':') = find_colon (index of the first colon); OsStr::from_bytes / OsStr::new(\"\") by their std contracts",
    ],
    "quote": [
        "quoting world (units/models/quotew.rs): shell_word_for (a non-empty run of characters from [-_.,/0-9A-Za-z], or the single-quoted form with embedded quotes spliced as '\\'') is the oracle for 'a POSIX shell reads this word as s'; it is validated against the real /bin/sh only by the bounded scenario c19_shell_roundtrip",
        "R6: format!(\"'{}'\", s.replace(...)) = fmt_squote_replaced; s.chars().all(f) = str_all; str::is_empty, char::is_ascii_alphanumeric by their std contracts; Cow<str> by a two-variant shim",
        "to_cmdline_lossy is under contract with its whole body (three loops with invariants). R6 there: env::vars_os().collect() = env_vars_os_vec (the calling process's environment, uninterpreted); iter().map(|(a, b)| (a, b)).collect() into a HashMap = ref_map (last entry of a name wins on lookup, membership = membership in the list); m.get(&k) == Some(&v) = map_has; `for (k, v) in &vec` / `for (k, _) in vec` = loop { match it.next() } over PairsIter / IntoPairsIter (Verus for-loops have no `continue`); &Cow<str> used as &str = cow_str; OsStr::to_string_lossy is an uninterpreted decoding (the identity on the valid Unicode the property speaks about); String::new/push/push_str by vstd's specifications; Exec is the real struct, PopenConfig is reduced to the field `env`",
        "the Debug impls of Exec and Pipeline are under contract (emitted as inherent methods debug_fmt): what is written is NAME { text }, for a pipeline the stages' command lines in order joined by the literal \" | \". R6: write!(f, \"NAME {{ {} }}\", x) = write_braced (a Formatter is the text written so far); [String]::join = join_strings; vec![] = Vec::new(); Pipeline is reduced to the field `cmds`; one extensionality hint is part of the write! rewrite",
    ],
    "exec": [
        "exec world (units/models/execw.rs): segments(PATH) = the maximal non-empty colon-free runs (units/models/segments.rs; the tokenizer closure of split_path is proved against it in unit splitpath, and a bounded Kani harness runs the real iterator on 3-byte PATHs); "
        "the iterator returned by split_path is modelled by SplitPath (R6: `for dir in split_path(p)` desugared to loop/match next())",
        "R6: the Vec<u8> buffer prealloc_exe is represented by Buf with an explicit ghost capacity (std: a Vec does not reallocate while len <= capacity); mem::take = take_buf; "
        "b\"/\" = slash(); max_segment_len = split_path(p).map(OsStr::len).max().unwrap_or(0); has_slash / nonempty_path_var = the iterator / Option adaptor expressions of prep_exec",
        "R9: the closure `move || prep.exec()` returned by prep_exec is represented by the PrepExec value it captures",
        "PrepExec::libc_exec (execve/execv through raw pointers) and CVec::new are shimmed by contract: exec returning means failure; NUL => Err",
        "assemble_exe's contract covers at most three components (its two call sites pass one and three)",
    ],
    "builder": [
        "builder world (units/models/buildw.rs, buildw_shims2.rs): Popen::create appends one stage recording what it was given and returns a Running handle holding a parent end exactly for Pipe streams (contract proved in unit spawn); wait/drop contracts restated from unit pstate; a blocking wait is assumed not to fail",
        "drop glue (units/models/buildw_glue.rs) is written per the Rust reference (own Drop::drop, then fields in declaration order; Vec elements in order); explicit drop elaboration is inserted at the `?`/return sites of Pipeline::popen, join and capture",
        "wait-safety is demanded only of waits the library causes implicitly (drop glue); a user who asks join() for a pipe nobody reads is outside the claim",
        "parked pipe ends (BW.parked): the read end make_pipe() returns and every end moved into a Communicator count as held by the library until the modelled drop (drop_glue_opt_file, drop_glue_communicator: R6 of `x.take();` / `drop(comm)` and of the `?` exits of capture / setup_communicate, locals dropped in reverse order of declaration) or until an unlimited Communicator::read succeeds (everything delivered, every stream at EOF: unit comm); a Communicator returned to the caller by communicate() is the caller's to look after (ghost hand_over); the public terminators assume nothing is parked when they are called",
        "R6 seams: collect_execs = iterable.into_iter().collect() in Pipeline::from_exec_iter (any IntoIterator<Item = Exec> is represented by the sequence it yields; its documented panic for fewer than two elements is a precondition); map_stderr / map_detached = into_iter().map(f).collect(); Vec::drain(..1)/drain(len-1..) = remove(0)/pop(); enumerate loop = index loop with remove(0); Vec::extend(iter.map(f)) = push loop; env_retain_ne = Vec::retain with a destructuring closure; Path = its OsStr",
        "`impl AsRef<OsStr>` arguments are modelled by a local AsRef trait exposing the bytes; `impl Into<..>` parameters are rewritten to named type parameters (identical semantics)",
        "From<Redirection> for InputRedirection: a trait method cannot carry a precondition in Verus, so the impl itself is external_body with the specification from_spec, and its BODY is verified as the free-standing function input_redirection_from (same text, extracted from /repo) against that specification under the precondition the callers establish (no Merge on an input: the documented panic); the two NullFile conversions are verified the same way (R6: OpenOptions::new().read|write(true).open(NULL_DEVICE).unwrap() = open_null_device_read|write; that the null device exists and can be opened is assumed): an input is opened for reading, an output for writing",
        "format_env (duplicate keys: last wins) is outside this unit",
    ],
    "spawn": [
        "spawn world (units/models/spawn.rs): pipe() yields two fresh inheritable ends >= 3 (the parent's 0..2 are open); fork copies the descriptor table; "
        "dup2(f, n) makes n refer to f's open file; the launch-status pipe delivers EOF iff exec happened, else exactly the 4 bytes the child wrote",
        "implicit drops are NOT modelled by Verus: that the child ends and a failed attempt's Files are closed when they go out of scope is Rust ownership",
        "caller-supplied Files (Redirection::File/RcFile) are not library pipes and sit on descriptors >= 3 (precondition user_file_ok)",
        "R6/R9 seams: dup2_file = posix::dup2(f.as_raw_fd(), n); fcntl_set_cloexec = the F_GETFD/F_SETFD pair (Kani w_set_inheritable); JustExec::call = the closure returned by posix::prep_exec (its body PrepExec::exec is outside this unit); "
        "opt_osstr/opt_cstr/opt_vec = Option::as_deref; format_env_opt = as_deref().map(format_env); to_os_vec = iter().map(to_owned).collect(); drop_file = drop(File)",
        "contracts of Popen::drop_impl and os_wait are restated from unit pstate (proved there); a blocking wait is assumed not to fail with an error other than ECHILD",
        "the parent's read of the launch-status pipe failing (e.g. EINTR) is not covered by the no-child-left clause",
        "io::Error construction from an errno does not allocate (std Repr::Os)",
    ],
    "pstate": [
        "process-state model (units/models/procstate.rs): waitpid returns a child's status only after it terminated and then reaps it; "
        "ECHILD means somebody else reaped it; WNOHANG returns 0 only while the child exists; sleep(d) advances the clock by at least d",
        "the exit status is a prophecy variable `fate` (exit code 0..255 or fatal signal 1..127); decoding of the raw status word is proved separately (Kani, posix::decode_exit_status)",
        "trait methods (PopenOs, PopenOsImpl, PopenExt) are emitted as inherent methods of Popen: each trait has exactly one impl per platform",
        "Popen::drop is verified as the inherent method drop_impl (R8); that the compiler calls it when a Popen goes out of scope is Rust semantics",
        "std: Result::unwrap_or (assume_specification in units/models/stdspecs.rs)",
        "liveness of the child is not modelled: a blocking waitpid returns when the child terminates",
    ],
    "comm": [
        "exchange model (units/models/exchange.rs): Linux pipe semantics of read/write/poll on the three slots; "
        "a write of <= PIPE_BUF bytes after POLLOUT does not block; poll never returns 0 before its timeout",
        "the child's total output is finite (termination is relative to the child closing its streams)",
        "machine arithmetic: captured bytes + remaining bytes <= usize::MAX (precondition of read_into)",
        "Rust drop of a File closes the descriptor (std); Verus does not model destructors",
        "cfg(windows) helper-thread variant of communicate.rs is NOT covered",
    ],
}

# --------------------------------------------------------------------------------------------- Kani harnesses
# name -> what it proves; bounded=<text> marks a bounded stand-in (never counted as proved)
KANI = {
    "w_decode_exit_status": dict(about="posix::decode_exit_status against the POSIX/Linux status-word encoding, all 2^32 words", tags=["C09"]),
    "w_waitpid": dict(about="posix::waitpid = one waitpid(pid,&status,flags); result mapping; ECHILD surfaced; all pids/states/flags/status words (a wait that also returns for a merely stopped child would mark a live child as finished: C10 then sends nothing to it)", tags=["C09", "C10"]),
    "w_kill": dict(about="posix::kill passes (pid, signal) unchanged, once; SIGTERM/SIGKILL/ECHILD/WNOHANG are libc's", tags=["C10", "C09"]),
    "w_reset_sigpipe": dict(about="posix::reset_sigpipe: Ok => empty signal mask and SIGPIPE default, for every parent mask and every previous SIGPIPE disposition (C12: a writer whose reader went away must be killable by SIGPIPE, or dropping a stream adapter waits for ever)", tags=["C18", "C12"]),
    "w_poll_passthrough": dict(about="PollFd layout = libc::pollfd; poll() passes array, length and floor-ms timeout to libc::poll; test() reads revents (R6 seam of the comm unit)", tags=["C01", "C04"]),
    "w_dup2": dict(about="posix::dup2 pass-through", tags=["C05"]),
    "w_pipe": dict(about="posix::pipe: two fresh descriptors of one new pipe, read end first, BOTH BORN close-on-exec (pipe2), nothing leaked on failure", tags=["C05", "C07", "C08"]),
    "w_fork_ids": dict(about="posix::fork/setuid/setgid/setpgid pass-through and result mapping", tags=["C06", "C07"]),
    "w_make_standard_stream": dict(about="make_standard_stream: handle on fd 0/1/2 whose drop never closes the descriptor (C08: a closed standard descriptor number is reused by the next pipe, which a later Merge child then receives)", tags=["C05", "C08"]),
    "w_set_inheritable": dict(about="set_inheritable(f,false) = F_GETFD + F_SETFD(old|FD_CLOEXEC): descriptor becomes close-on-exec, other flags and other descriptors untouched; (f,true) is a no-op (R6 seam of the spawn unit)", tags=["C08", "C05"]),
    "b_split_path_b3": dict(about="split_path yields exactly the maximal non-empty colon-free runs of PATH, in order", bounded="PATH values of exactly 3 bytes over {':','a','b'}", tags=["C15"]),
    "r_exec_stdin_refuses": dict(about="Exec::stdin never returns for any (current, new) pair outside the accepted cases -- incl. Merge and data on an already piped stdin (refusal direction of the set-once rule)", tags=["C16"]),
    "r_exec_stdout_refuses": dict(about="Exec::stdout never returns outside (None, any) | (Pipe, Pipe)", tags=["C16"]),
    "r_exec_stderr_refuses": dict(about="Exec::stderr never returns outside (None, any) | (Pipe, Pipe)", tags=["C16"]),
    "r_exec_terminators_refuse_data": dict(about="check_no_stdin_data never returns while input data is pending (popen/join/stream_*)", tags=["C16"]),
    "w_exec_stdin_accepts": dict(about="the accepted cases of Exec::stdin do return (vacuity guard of the refusal harnesses)", tags=["C16"]),
    "w_chdir": dict(about="posix::chdir = exactly one chdir(2) on the prepared C string, errno surfaced (no std path handling in the child)", tags=["C17", "C06"]),
    "w_os_to_cstring_b4": dict(about="os_to_cstring: NUL => EINVAL, else bytes verbatim", bounded="strings of at most 4 bytes", tags=["C06"]),
}
KANI_TRUST = [
    "libc model kani/libc_model.rs (fd table, one child, signal state, poll, exec log): replaces the foreign calls of src/posix.rs under cfg(kani)",
    "posix::check_err is stubbed under Kani by an equivalent reading the model's errno (std's errno is a private foreign call); posix::fcntl (C-variadic) is stubbed by a model",
    "<OwnedFd as Drop>::drop is stubbed by the model's close (Rust/std: dropping a File closes its descriptor)",
]


# every property that lists a harness is served by it
for _p, _P in PROPS.items():
    for _h in _P.get("kani", []):
        if _h in KANI and _p not in KANI[_h].setdefault("tags", []):
            KANI[_h]["tags"].append(_p)
