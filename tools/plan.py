"""What decides which property: Verus units, Kani harnesses, replay scenarios, trusted base.

Kept as data so that MANIFEST.json, the check driver and the evidence writer agree.
"""

# --------------------------------------------------------------------------------------------- Verus units
# unit name -> template under units/, rlimit, the functions whose entry must be reachable (vacuity twins)
UNITS = {
    "comm": dict(template="units/comm.vt.rs", rlimit=200,
                 about="the poll()-driven exchange loop of communicate.rs (unix variant) against the exchange model"),
}

# --------------------------------------------------------------------------------------------- properties
PROPS = {
    "C01": dict(units=["comm"], kani=[], level="proof"),
    "C02": dict(units=["comm"], kani=[], level="proof"),
    "C03": dict(units=["comm"], kani=[], level="proof"),
    "C04": dict(units=["comm"], kani=[], level="proof"),
}

# --------------------------------------------------------------------------------------------- replay scenarios
# (property, regex on obligation id) -> scenario binary (scenarios/src/bin/<name>.rs) and what it shows.
# A scenario exits 1 and prints FAIL when the real crate, built from /repo's working tree, misbehaves.
SCENARIOS = [
    ("C04", r"comm:.*maybe_poll:ensures:.*deadline\.is_some\(\) && final\(w\)\.s\.now \+ 1_000_000", "d2_pollerr_timeout"),
    ("C04", r"comm:.*read_into:.*(precondition|requires).*old\(w\)\.s\.now < deadline", "d3_deadline_flood"),
]

# --------------------------------------------------------------------------------------------- assumptions
# free-text trusted base per unit (in addition to the mechanically listed external_body/axiom items)
UNIT_TRUST = {
    "comm": [
        "exchange model (units/models/exchange.rs): Linux pipe semantics of read/write/poll on the three slots; "
        "a write of <= PIPE_BUF bytes after POLLOUT does not block; poll never returns 0 before its timeout",
        "the child's total output is finite (termination is relative to the child closing its streams)",
        "machine arithmetic: captured bytes + remaining bytes <= usize::MAX (precondition of read_into)",
        "Rust drop of a File closes the descriptor (std); Verus does not model destructors",
        "cfg(windows) helper-thread variant of communicate.rs is NOT covered",
    ],
}
