"""What decides which property: Verus units, Kani harnesses, replay scenarios, trusted base.

Kept as data so that MANIFEST.json, the check driver and the evidence writer agree.
"""

# --------------------------------------------------------------------------------------------- Verus units
# unit name -> template under units/, rlimit, the functions whose entry must be reachable (vacuity twins)
UNITS = {
    "comm": dict(template="units/comm.vt.rs", rlimit=200,
                 about="the poll()-driven exchange loop of communicate.rs (unix variant) against the exchange model"),
    "pstate": dict(template="units/pstate.vt.rs", rlimit=50,
                   about="the Popen child-state machine (waitpid/wait/wait_timeout/poll/terminate/kill/send_signal/Drop) against the one-child process model"),
}

# --------------------------------------------------------------------------------------------- properties
PROPS = {
    "C01": dict(units=["comm"], kani=[], level="proof"),
    "C02": dict(units=["comm"], kani=[], level="proof"),
    "C03": dict(units=["comm"], kani=[], level="proof"),
    "C04": dict(units=["comm"], kani=[], level="proof"),
    "C09": dict(units=["pstate"], kani=[], level="proof"),
    "C10": dict(units=["pstate"], kani=[], level="proof"),
    "C11": dict(units=["pstate"], kani=[], level="proof"),
}

# --------------------------------------------------------------------------------------------- replay scenarios
# (property, regex on obligation id) -> scenario binary (scenarios/src/bin/<name>.rs) and what it shows.
# A scenario exits 1 and prints FAIL when the real crate, built from /repo's working tree, misbehaves.
SCENARIOS = [
    ("C04", r"comm:.*maybe_poll:ensures:.*deadline\.is_some\(\) && final\(w\)\.s\.now \+ 1_000_000", "d2_pollerr_timeout"),
    ("C04", r"comm:.*read_into:.*(precondition|requires).*old\(w\)\.s\.now < deadline", "d3_deadline_flood"),
]

# --------------------------------------------------------------------------------------------- assumptions
# free-text trusted base per unit (in addition to the mechanically listed external_body/axiom items)
UNIT_TRUST = {
    "pstate": [
        "process-state model (units/models/procstate.rs): waitpid returns a child's status only after it terminated and then reaps it; "
        "ECHILD means somebody else reaped it; WNOHANG returns 0 only while the child exists; sleep(d) advances the clock by at least d",
        "the exit status is a prophecy variable `fate` (exit code 0..255 or fatal signal 1..127); decoding of the raw status word is proved separately (Kani, posix::decode_exit_status)",
        "trait methods (PopenOs, PopenOsImpl, PopenExt) are emitted as inherent methods of Popen: each trait has exactly one impl per platform",
        "Popen::drop is verified as the inherent method drop_impl (R8); that the compiler calls it when a Popen goes out of scope is Rust semantics",
        "std: Result::unwrap_or (assume_specification in units/models/stdspecs.rs)",
        "liveness of the child is not modelled: a blocking waitpid returns when the child terminates",
    ],
    "comm": [
        "exchange model (units/models/exchange.rs): Linux pipe semantics of read/write/poll on the three slots; "
        "a write of <= PIPE_BUF bytes after POLLOUT does not block; poll never returns 0 before its timeout",
        "the child's total output is finite (termination is relative to the child closing its streams)",
        "machine arithmetic: captured bytes + remaining bytes <= usize::MAX (precondition of read_into)",
        "Rust drop of a File closes the descriptor (std); Verus does not model destructors",
        "cfg(windows) helper-thread variant of communicate.rs is NOT covered",
    ],
}
