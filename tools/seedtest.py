#!/usr/bin/env python3
"""seedtest -- run a property's check against a scratch copy of /repo with one seeded change applied.
usage: seedtest.py PROP PATCH [--props C01,C04] -> prints one line: PROP patch rc summary"""
import os, shutil, subprocess, sys, tempfile, json, re
prop, patch = sys.argv[1], sys.argv[2]
props = [prop]
if "--props" in sys.argv:
    props = sys.argv[sys.argv.index("--props") + 1].split(",")
d = tempfile.mkdtemp(prefix="seed-repo-")
try:
    for n in ("src", "Cargo.toml", "Cargo.lock", "tests", "examples"):
        s = os.path.join("/repo", n)
        (shutil.copytree if os.path.isdir(s) else shutil.copy)(s, os.path.join(d, n))
    r = subprocess.run(["git", "apply", "--unsafe-paths", "--directory=" + d, patch], cwd="/", capture_output=True, text=True)
    if r.returncode != 0:
        r = subprocess.run(["patch", "-p1", "-d", d, "-i", patch], capture_output=True, text=True)
    if r.returncode != 0:
        print("%s %s APPLY-FAILED %s" % (prop, patch, (r.stdout + r.stderr)[-300:].replace("\n", " ")))
        sys.exit(3)
    for p in props:
        env = dict(os.environ, VERIF_REPO=d, VERIF_EVIDENCE_DIR=os.path.join(d, "evidence"))
        c = subprocess.run(["/verif/check", p], cwd="/verif", env=env, capture_output=True, text=True)
        out = (c.stdout + c.stderr)
        viol = re.findall(r"VIOLATION property=\S+ replay=(\S+)", out)
        what = []
        for v in viol:
            try:
                what.append(json.load(open(v))["obligation"][:150])
            except Exception:
                pass
        prob = re.findall(r"TOOL PROBLEM: (.*)", out)
        print("%s %s check=%s rc=%d %s %s" % (prop, os.path.relpath(patch, "/tmp"), p, c.returncode, " | ".join(what), (" PROBLEM: " + prob[0][:200]) if prob else ""), flush=True)
finally:
    import hashlib, tempfile as _t
    shutil.rmtree(os.path.join(_t.gettempdir(), "verif-scn-" + hashlib.sha1(d.encode()).hexdigest()[:8]), ignore_errors=True)
    shutil.rmtree(d, ignore_errors=True)
