#!/usr/bin/env python3
"""vgen -- build one Verus input file from a unit template and /repo's current working tree.

A unit template (units/<name>.vt.rs) is Verus text (model shims, spec functions, lemmas) with `//@`
directives that pull the *real* source text of functions/structs out of /repo and splice the contract
that follows the directive between signature and body.  See DESIGN.md section 2.2 for the rewrite rules
(R1..R8); every applied rewrite is counted and reported.

Directives (one per line, at any indentation):
  //@unit NAME
  //@source REL/PATH.rs                 current source file (relative to the repo root)
  //@include FILE                       include another template file (relative to units/)
  //@world NAME                         name of the ghost world parameter (default w)
  //@thread CALLEE[:ro] ...             R2: calls of these get a trailing Tracked(w) / Tracked(&*w)
  //@struct PATH [pubfields] [derive=A,B] [rename=NEW]
  //@enum PATH [derive=A,B]
  //@item PATH                          copy any item verbatim (attributes dropped)
  //@fn PATH [world=mut|ro] [ret=NAME] [rename=NEW] [vis=pub|none] [drop_impl]   ... //@end
      inside: plain lines = contract (requires/ensures/decreases); and sub-directives
        //@attr TEXT                    attribute line emitted before the fn
        //@entry                        following lines (until next sub-directive) go to the start of the body
        //@loop N                       following lines = invariant/decreases of loop N (pre-order ordinal)
        //@closure N HEADER             closure N gets the parameter list/return HEADER; following lines = its spec
        //@replace COUNT /OLD/ => /NEW/ R6: token-pattern replacement inside the body, must match COUNT times
        //@selfmut                      R5: `mut self` parameter -> `self` + `let mut this = self;`
        //@nested NAME [opts] ... //@endnested    contract for a fn nested in this fn's body
Clause tags: a contract line may end in `//[C01,C04]`; the driver uses the tags to attribute a failed
obligation to properties (untagged = shared by every property served by the unit).
"""
import os
import re
import sys
import json

sys.path.insert(0, os.path.dirname(os.path.abspath(__file__)))
from rsx import (Lost, tokenize, match_close, sig, prev_sig, text, items_in, find_item, line_starts,
                 offset_to_line)

VERIF = os.path.dirname(os.path.dirname(os.path.abspath(__file__)))


class Gen:
    def __init__(self, repo, unit_path):
        self.repo = repo
        self.unit_path = unit_path
        self.out = []  # list of (text_line, origin dict)
        self.world = "w"
        self.thread = []  # (callee, ro)
        self.src_cache = {}
        self.cur_src = None
        self.rewrites = {}  # rule -> count
        self.functions = []  # dicts: path, file, line, out_start, out_end, clauses
        self.unit = os.path.basename(unit_path).split(".")[0]
        self.dropped = []

    # ------------------------------------------------------------------ helpers
    def count(self, rule, n=1):
        self.rewrites[rule] = self.rewrites.get(rule, 0) + n

    def src(self, rel):
        if rel not in self.src_cache:
            p = os.path.join(self.repo, rel)
            if not os.path.exists(p):
                raise Lost("source file missing: %s" % rel)
            s = open(p).read()
            self.src_cache[rel] = (s, tokenize(s), line_starts(s))
        return self.src_cache[rel]

    def emit(self, text_, **origin):
        self.out.append((text_, origin))

    def emit_text(self, txt, **origin):
        for l in txt.split("\n"):
            self.emit(l, **origin)

    # ------------------------------------------------------------------ template walk
    def run(self):
        self.process_file(self.unit_path)
        return self

    def process_file(self, path):
        lines = open(path).read().split("\n")
        rel = os.path.relpath(path, VERIF)
        i = 0
        while i < len(lines):
            l = lines[i]
            s = l.strip()
            if not s.startswith("//@"):
                self.emit(l, kind="spec", file=rel, line=i + 1)
                i += 1
                continue
            parts = s[3:].split()
            d = parts[0]
            if d in ("fn", "struct", "enum", "item") and len(parts) > 1:
                parts[1] = parts[1].replace("+", " ")   # `impl(Trait+for+Type)` in a path
            if d == "unit":
                self.unit = parts[1]
            elif d == "source":
                self.cur_src = parts[1]
            elif d == "include":
                self.process_file(os.path.join(os.path.dirname(path), parts[1]))
            elif d == "world":
                self.world = parts[1]
            elif d == "thread":
                for c in parts[1:]:
                    ro = c.endswith(":ro")
                    self.thread.append((c[:-3] if ro else c, ro))
            elif d == "unthread":
                self.thread = [t for t in self.thread if t[0] not in parts[1:]]
            elif d in ("struct", "enum", "item"):
                self.do_type(d, parts[1], parts[2:], rel, i + 1)
            elif d == "fn":
                j = i + 1
                block = []
                while j < len(lines) and lines[j].strip() != "//@end":
                    if lines[j].strip().startswith("//@include "):
                        # textual include inside a function block (shared invariants / rewrites of two shapes of one function)
                        inc = os.path.join(os.path.dirname(path), lines[j].strip().split()[1])
                        for k, il in enumerate(open(inc).read().split("\n")):
                            block.append((j + 1, il))
                    else:
                        block.append((j + 1, lines[j]))
                    j += 1
                if j >= len(lines):
                    raise Lost("%s:%d: //@fn without //@end" % (rel, i + 1))
                self.do_fn(parts[1], parts[2:], block, rel, i + 1)
                i = j
            else:
                raise Lost("%s:%d: unknown directive %s" % (rel, i + 1, d))
            i += 1

    # ------------------------------------------------------------------ types
    def do_type(self, d, path, opts, rel, lineno):
        s, toks, ls = self.src(self.cur_src)
        it = find_item(toks, path)
        o = parse_opts(opts)
        body = strip_attrs_and_comments(toks, it.start, it.end)
        if "pubfields" in o:
            if it.body_open is None:
                # tuple struct: make positional fields pub
                body = re.sub(r"\(\s*", "(pub ", body, count=1)
                body = re.sub(r",\s*(?=[A-Za-z&(\[<])", ", pub ", body)
            else:
                body = pub_fields(body)
            self.count("R4")
        if "static_refs" in o:
            # a const's elided reference lifetime is 'static; Verus wants it spelled out
            body = re.sub(r"&(?!')", "&'static ", body.split("=", 1)[0]) + "=" + body.split("=", 1)[1]
            self.count("R3-static")
        if "subst" in o:
            # R6 on a type: subst=OLD=>NEW replaces a field type (exactly once)
            a, b = o["subst"].split("=>")
            if body.count(a) != 1:
                raise Lost("%s: subst pattern %r matched %d times" % (path, a, body.count(a)))
            body = body.replace(a, b)
            self.count("R6")
        if "rename" in o:
            body = re.sub(r"\b%s\b" % re.escape(it.name), o["rename"], body, count=1)
        if not re.match(r"\s*pub\b", body):
            body = "pub " + body
        if "derive" in o:
            self.emit("#[derive(%s)]" % o["derive"].replace(",", ", "), kind="spec", file=rel, line=lineno)
        line0 = offset_to_line(ls, toks[it.start].a)
        self.emit_text(body, kind="repo", file=self.cur_src, line=line0, item=path)
        self.functions.append(dict(path=path, kind=d, file=self.cur_src, line=line0))

    # ------------------------------------------------------------------ functions
    def do_fn(self, path, opts, block, rel, lineno, within=None):
        """within: (toks, a, b) token range to search (nested fn); else whole current source"""
        s, toks, ls = self.src(self.cur_src)
        o = parse_opts(opts)
        if within is None:
            try:
                it = find_item(toks, path)
            except Lost:
                if "ifpresent" in o:
                    # a function that exists only in one of two supported shapes of the code: absent = nothing to emit
                    self.count("absent-ifpresent")
                    return
                if "optional" not in o:
                    raise
                # `optional`: the item may legitimately be absent (a type without `impl Drop`): emit an empty method so that
                # the contract is checked against "does nothing" -- which is what Rust does
                self.emit("pub fn %s(&mut self)" % o.get("rename", path.split("::")[-1]), kind="spec", file=rel, line=lineno, fn=path, part="signature")
                for ln, l in block:
                    if not l.strip().startswith("//@"):
                        self.emit(l, kind="spec", file=rel, line=ln, fn=path, part="ensures", tags=clause_tags(l))
                self.emit("{ }", kind="spec", file=rel, line=lineno, fn=path, part="body")
                self.functions.append(dict(path=path, kind="fn", file=self.cur_src, line=0, absent=True, clauses=0))
                self.count("absent-optional")
                return
        else:
            cands = [c for c in items_in(toks, within[0], within[1]) if c.kind == "fn" and c.name == path]
            if len(cands) != 1:
                raise Lost("nested fn %s not found" % path)
            it = cands[0]
        if it.kind != "fn" or it.body_open is None:
            raise Lost("%s is not a fn with a body" % path)
        # ---- split the block into sections
        contract, attrs, entry, loops, closures, replaces, nested = [], [], [], {}, {}, [], {}
        sreplaces = []
        optional_loops = set()
        self._optional_loops = optional_loops
        selfmut = False
        cur = contract
        k = 0
        while k < len(block):
            ln, l = block[k]
            st = l.strip()
            if st.startswith("//@"):
                p = st[3:].split(None, 2)
                if p[0] == "attr":
                    attrs.append(st[3:].split(None, 1)[1])
                elif p[0] == "entry":
                    cur = entry
                elif p[0] == "contract":
                    cur = contract
                elif p[0] == "loop":
                    cur = loops.setdefault(int(p[1]), [])
                    if len(p) > 2 and p[2].strip() == "optional":
                        optional_loops.add(int(p[1]))
                elif p[0] == "closure":
                    hdr = st[3:].split(None, 2)[2]
                    cur = []
                    closures[int(p[1])] = (hdr, cur)
                elif p[0] == "hint":
                    # proof hint (an assert is checked, never assumed): inserted before the first match of the regex;
                    # a lost anchor only drops the hint
                    m = re.match(r"hint\s+/(.*)/\s*=>\s*(.*)$", st[3:])
                    if not m:
                        raise Lost("%s:%d: bad //@hint" % (rel, ln))
                    replaces.append((-1, m.group(1), m.group(2), ln, True))
                elif p[0] == "forbid":
                    # after all rewrites the body must not contain this pattern (a construct whose drop/exit elaboration would be
                    # missing): finding it is a tool problem (exit 2), never a pass
                    m = re.match(r"forbid\s+/(.*)/\s*$", st[3:])
                    if not m:
                        raise Lost("%s:%d: bad //@forbid" % (rel, ln))
                    replaces.append((-4, m.group(1), "", ln, True))
                elif p[0] == "sreplace":
                    # like rreplace, but on the signature text
                    m = re.match(r"sreplace\s+(\d+)\s+/(.*)/\s*=>\s*/(.*)/\s*$", st[3:])
                    if not m:
                        raise Lost("%s:%d: bad //@sreplace" % (rel, ln))
                    sreplaces.append((int(m.group(1)), m.group(2), m.group(3), ln))
                elif p[0] in ("replace", "rreplace"):
                    # replace: OLD is Rust text matched token-wise (whitespace-insensitive); rreplace: OLD is a regular expression
                    m = re.match(r"r?replace\s+(\d+|\?|\+)\s+/(.*)/\s*=>\s*/(.*)/\s*$", st[3:])
                    if not m:
                        raise Lost("%s:%d: bad //@replace" % (rel, ln))
                    # count `?` = zero or one occurrence (an anchor that a code change may legitimately remove)
                    # count `+` = one or more occurrences
                    replaces.append((-2 if m.group(1) == "?" else -3 if m.group(1) == "+" else int(m.group(1)), m.group(2), m.group(3), ln, p[0] == "rreplace"))
                elif p[0] == "selfmut":
                    selfmut = True
                elif p[0] == "nested":
                    nm = p[1]
                    nopts = st[3:].split()[2:]
                    sub = []
                    k += 1
                    while k < len(block) and block[k][1].strip() != "//@endnested":
                        sub.append(block[k])
                        k += 1
                    nested[nm] = (nopts, sub, ln)
                else:
                    raise Lost("%s:%d: unknown sub-directive %s" % (rel, ln, p[0]))
            else:
                cur.append((ln, l))
            k += 1

        fn_out_start = len(self.out)
        line0 = offset_to_line(ls, toks[it.start].a)
        for a in attrs:
            self.emit(a, kind="spec", file=rel, line=lineno)
        # ---- signature
        head = self.rewrite_signature(toks, it, o, selfmut)
        for cnt, old, new, ln in sreplaces:
            found = re.findall(old, head)
            if len(found) != cnt:
                raise Lost("%s (%s:%d): signature pattern /%s/ matched %d times, expected %d" % (path, rel, ln, old, len(found), cnt))
            head = re.sub(old, new, head)
            self.count("R6", cnt)
        self.emit_text(head.rstrip(), kind="repo", file=self.cur_src, line=line0, fn=path, part="signature")
        clauses = []
        section = None
        for ln, l in contract:
            st = l.strip()
            m = re.match(r"(requires|ensures|decreases|recommends|opens_invariants|no_unwind)\b", st)
            if m:
                section = m.group(1)
            tags = clause_tags(l)
            self.emit(l, kind="spec", file=rel, line=ln, fn=path, part=section, tags=tags)
            if st and not st.startswith("//"):
                clauses.append(section)
        # ---- body
        close = match_close(toks, it.body_open)
        body_chunks = self.rewrite_body(toks, it.body_open, close, path, loops, closures, replaces, nested, rel,
                                        selfmut, entry)
        self.emit_chunks(body_chunks, ls, path)
        self.functions.append(dict(path=path, kind="fn", file=self.cur_src, line=line0, out_start=fn_out_start + 1,
                                   out_end=len(self.out), clauses=len(clauses), loops=len(loops),
                                   closures=len(closures)))

    def rewrite_signature(self, toks, it, o, selfmut):
        """tokens [it.start, it.body_open) with R2 (world param), R3 (named result), R5 (mut self)"""
        a, b = it.start, it.body_open
        edits = []  # (tokindex, delete_count, insert_text)
        # strip visibility if asked, add pub if asked
        i = a
        # locate fn keyword and name
        k = a
        while not (toks[k].k == "id" and toks[k].s == "fn"):
            k += 1
        name_i = sig(toks, k + 1)
        if "rename" in o:
            edits.append((name_i, 1, o["rename"]))
        # params paren: first `(` after name, skipping generics
        p = sig(toks, name_i + 1)
        if toks[p].s == "<":
            depth = 0
            while True:
                if toks[p].s == "<":
                    depth += 1
                elif toks[p].s == ">" and toks[p - 1].s != "-":
                    depth -= 1
                    if depth == 0:
                        break
                p += 1
            p = sig(toks, p + 1)
        if not (toks[p].k == "o" and toks[p].s == "("):
            raise Lost("cannot find parameter list of %s" % it.name)
        pc = match_close(toks, p)
        if selfmut:
            q = sig(toks, p + 1)
            if not (toks[q].s == "mut" and toks[sig(toks, q + 1)].s == "self"):
                # the function takes plain `self` (e.g. after a refactoring): `let mut this = self;` is still a faithful rendering
                self.count("R5-plain-self")
            else:
                edits.append((q, sig(toks, q + 1) - q, ""))
                self.count("R5")
        w = o.get("world")
        if w:
            ins = "Tracked(%s): Tracked<&mut World>" % self.world if w == "mut" else "Tracked(%s): Tracked<&World>" % self.world
            last = prev_sig(toks, pc)
            if last == p:
                edits.append((pc, 0, ins))
            elif toks[last].s == ",":
                edits.append((pc, 0, ins + ",\n"))
            else:
                edits.append((pc, 0, ", " + ins))
            self.count("R2-def")
        # return type
        r = sig(toks, pc + 1)
        retname = o.get("ret", "r")
        if r < b and toks[r].s == "-" and toks[r + 1].s == ">" and "native" not in o:
            t0 = sig(toks, r + 2)
            # type ends before `where` at depth 0 or at b
            t1 = b
            j = t0
            while j < b:
                if toks[j].k == "o":
                    j = match_close(toks, j) + 1
                    continue
                if toks[j].k == "id" and toks[j].s == "where":
                    t1 = j
                    break
                j += 1
            te = prev_sig(toks, t1) + 1
            edits.append((t0, 0, "(%s: " % retname))
            edits.append((te, 0, ")"))
            self.count("R3")
        outp = []
        em = {}
        for e in edits:
            em.setdefault(e[0], []).append(e)
        j = a
        while j < b:
            skip = 0
            for e in em.get(j, []):
                outp.append(e[2])
                skip = max(skip, e[1])
            if skip:
                j += skip
                continue
            if toks[j].k == "com":
                j += 1
                continue
            outp.append(toks[j].s)
            j += 1
        for e in em.get(b, []):
            outp.append(e[2])
        h = "".join(outp)
        if o.get("vis") == "pub" and not re.match(r"\s*pub\b", h):
            h = "pub " + h
        return h

    def rewrite_body(self, toks, bo, bc, path, loops, closures, replaces, nested, rel, selfmut, entry):
        """-> list of chunks (text, src_offset|None, origin-extra) for tokens [bo, bc]"""
        w = self.world
        # nested fn items (excluded from loop/closure numbering and call threading of the parent)
        nest_items = [c for c in items_in(toks, bo + 1, bc) if c.kind == "fn"]
        excl = [(c.attr_start, c.end) for c in nest_items]

        def excluded(i):
            return any(a <= i < b for a, b in excl)

        ins_before = {}  # tok index -> [text]
        replace_tok = {}  # tok index -> text
        skip_until = {}  # tok index -> end index (exclusive) with replacement chunk list

        def add_before(i, t, **kw):
            ins_before.setdefault(i, []).append((t, kw))

        # ---- closures: find ranges first (needed for threading mode)
        clos = []  # (start_tok, param_open, param_close, body_start)
        i = bo + 1
        while i < bc:
            if excluded(i):
                i += 1
                continue
            t = toks[i]
            if t.k == "p" and t.s == "|":
                pv = prev_sig(toks, i)
                pt = toks[pv]
                starts = (pt.k == "o") or (pt.k == "p" and pt.s in ",=;>&") or (pt.k == "id" and pt.s in ("move", "return", "else", "in"))
                if pt.k == "p" and pt.s == ">" and toks[pv - 1].s != "=":
                    starts = False
                if pt.k == "p" and pt.s == "|":
                    starts = False
                if starts:
                    # parameters run to the next `|` at depth 0
                    j = i + 1
                    while not (toks[j].k == "p" and toks[j].s == "|"):
                        if toks[j].k == "o":
                            j = match_close(toks, j)
                        j += 1
                    start = pv if (pt.k == "id" and pt.s == "move") else i
                    clos.append((start, i, j, sig(toks, j + 1)))
                    i = j + 1
                    continue
            i += 1
        # closure body extents (for threading mode): expression closure body extent = until `,` or `)` at depth 0
        clos_ext = []
        for (st, po, pcl, bs) in clos:
            j = bs
            if toks[j].s == "-" and toks[j + 1].s == ">":
                while not (toks[j].k == "o" and toks[j].s == "{"):
                    j += 1
            if toks[j].k == "o" and toks[j].s == "{":
                e = match_close(toks, j) + 1
            else:
                e = j
                while e < bc:
                    if toks[e].k == "o":
                        e = match_close(toks, e) + 1
                        continue
                    if toks[e].k == "c" or (toks[e].k == "p" and toks[e].s in ",;"):
                        break
                    e += 1
            clos_ext.append((st, e))

        def in_closure(i):
            return any(a <= i < b for a, b in clos_ext)

        for n, (st, po, pcl, bs) in enumerate(clos):
            if n in closures:
                hdr, spec = closures[n]
                # replace `|params|` by header; spec lines go before the body `{`
                skip_until[po] = (pcl + 1, [(hdr, None, {})])
                sp = "\n" + "\n".join(l for _, l in spec) + "\n"
                if not (toks[bs].k == "o" and toks[bs].s == "{"):
                    # expression body: `|x| e`  ->  `|x: T| -> (r: U) spec { e }`
                    add_before(bs, sp + "{ ", part="closure%d" % n)
                    add_before(clos_ext[n][1], " }")
                else:
                    add_before(bs, sp, part="closure%d" % n)
                self.count("R3-closure")
            else:
                # R1: wildcard params
                k = po + 1
                cnt = 0
                while k < pcl:
                    if toks[k].k == "id" and toks[k].s == "_":
                        replace_tok[k] = "_w%d" % cnt
                        cnt += 1
                        self.count("R1")
                    k += 1
        for n in closures:
            if n >= len(clos):
                raise Lost("%s: closure ordinal %d not found (function has %d closures)" % (path, n, len(clos)))

        # ---- loops
        lp = []
        i = bo + 1
        while i < bc:
            if excluded(i):
                i += 1
                continue
            t = toks[i]
            if t.k == "id" and t.s in ("loop", "while", "for"):
                nx = sig(toks, i + 1)
                pv = toks[prev_sig(toks, i)]
                if t.s == "for" and toks[nx].s == "<":
                    i += 1
                    continue
                if pv.k == "p" and pv.s == ".":
                    i += 1
                    continue
                j = i + 1
                # `while let PAT = E {` / `for PAT in E {`: the pattern may contain braces -- skip it first
                if (t.s == "while" and toks[nx].s == "let") or t.s == "for":
                    stop = "=" if t.s == "while" else "in"
                    while not (toks[j].s == stop and toks[j].k in ("p", "id")):
                        if toks[j].k == "o":
                            j = match_close(toks, j)
                        j += 1
                    j += 1
                while not (toks[j].k == "o" and toks[j].s == "{"):
                    if toks[j].k == "o":
                        j = match_close(toks, j)
                    j += 1
                lp.append((i, j))
            i += 1
        for n, lines in loops.items():
            if n >= len(lp):
                if n in getattr(self, "_optional_loops", set()):
                    self.count("loop-absent")
                    continue
                raise Lost("%s: loop ordinal %d not found (function has %d loops)" % (path, n, len(lp)))
            sp = "\n" + "\n".join(l for _, l in lines) + "\n"
            add_before(lp[n][1], sp, part="loop%d" % n, spec_lines=[ln for ln, _ in lines], spec_file=rel)
        self._nloops = len(lp)

        # ---- R2 call threading
        i = bo + 1
        while i < bc:
            if excluded(i):
                i += 1
                continue
            t = toks[i]
            if t.k == "o" and t.s == "(":
                pv = prev_sig(toks, i)
                if toks[pv].k == "id":
                    # build path backwards
                    segs = [toks[pv].s]
                    q = pv
                    while True:
                        a1 = prev_sig(toks, q)
                        a0 = prev_sig(toks, a1)
                        if toks[a1].s == ":" and toks[a0].s == ":" :
                            q2 = prev_sig(toks, a0)
                            if toks[q2].k == "id":
                                segs.insert(0, toks[q2].s)
                                q = q2
                                continue
                        break
                    before = toks[prev_sig(toks, q)]
                    method = before.k == "p" and before.s == "."
                    # absolute path  ::std::thread::sleep  keeps its leading ::
                    callee = "::".join(segs)
                    hit = None
                    for c, ro in self.thread:
                        if c.startswith("."):
                            if method and len(segs) == 1 and segs[0] == c[1:]:
                                hit = (c, ro)
                        elif not method and (callee == c or callee.endswith("::" + c)):
                            hit = (c, ro)
                    if hit and not (toks[prev_sig(toks, q)].k == "id" and toks[prev_sig(toks, q)].s == "fn"):
                        pc = match_close(toks, i)
                        ro = hit[1]
                        if in_closure(i) and not ro:
                            raise Lost("%s: effectful call %s inside a closure cannot be threaded" % (path, callee))
                        arg = "Tracked(&*%s)" % w if (ro and True) else "Tracked(%s)" % w
                        if ro and not in_closure(i) and self._cur_world == "ro":
                            arg = "Tracked(%s)" % w
                        if not ro and self._cur_world == "ro":
                            raise Lost("%s: mutable-world call %s in a read-only-world function" % (path, callee))
                        last = prev_sig(toks, pc)
                        if last == i:
                            add_before(pc, arg)
                        elif toks[last].s == ",":
                            add_before(pc, arg + ",")
                        else:
                            add_before(pc, ", " + arg)
                        self.count("R2-call")
            i += 1

        # ---- R7: binding-free reference patterns  `&Path`, `&Path { .. }`  ->  `Path`, `Path { .. }`
        # (Verus: "ref patterns not supported"; identical by default binding modes because nothing is bound)
        drop_tok = set()
        i = bo + 1
        while i < bc:
            if excluded(i):
                i += 1
                continue
            t = toks[i]
            if t.k == "p" and t.s == "&":
                pv = toks[prev_sig(toks, i)]
                nx = sig(toks, i + 1)
                if (pv.s in ("(", ",", "|") or (pv.k == "id" and pv.s == "let")) and toks[nx].k == "id" and toks[nx].s[0].isupper():
                    j = nx
                    while toks[sig(toks, j + 1)].s == ":" and toks[sig(toks, j + 1) + 1].s == ":":
                        j = sig(toks, sig(toks, j + 1) + 2)
                    if toks[j].k == "id" and toks[j].s[0].isupper():
                        a = sig(toks, j + 1)
                        ok = False
                        if toks[a].k == "o" and toks[a].s == "{":
                            inner = [x.s for x in toks[a + 1:match_close(toks, a)] if x.k not in ("ws", "com")]
                            if inner == [".", "."]:
                                a = sig(toks, match_close(toks, a) + 1)
                                ok = True
                        elif toks[a].k != "o":
                            ok = True
                        if ok and (toks[a].s in (",", ")", "|") or (toks[a].s == "=" and toks[a + 1].s in (">", " ", "\n") or toks[a].s == "=")):
                            drop_tok.add(i)
                            self.count("R7")
            i += 1

        # ---- nested fns: replaced by processed text
        nested_out = {}
        for c in nest_items:
            if c.name in nested:
                nopts, sub, ln = nested[c.name]
                saved_out = self.out
                self.out = []
                saved_world = self._cur_world
                self._cur_world = parse_opts(nopts).get("world")
                self.do_fn(c.name, nopts, sub, rel, ln, within=(bo + 1, bc))
                self._cur_world = saved_world
                nested_out[c.attr_start] = (c.end, self.out)
                self.out = saved_out
                # fix path of the function record
                self.functions[-1]["path"] = path + "::" + c.name
        for nm in nested:
            if not any(c.name == nm for c in nest_items):
                raise Lost("%s: nested fn %s not found" % (path, nm))

        # ---- assemble chunks
        chunks = []
        i = bo
        first = True
        while i <= bc:
            if i in nested_out:
                end, outl = nested_out[i]
                chunks.append(("NESTED", None, {"lines": outl}))
                i = end
                continue
            for t, kw in ins_before.get(i, []):
                chunks.append((t, None, kw))
            if i in skip_until:
                end, repl = skip_until[i]
                chunks.extend(repl)
                i = end
                continue
            tk = toks[i]
            if tk.k == "com" and tk.s.startswith("///"):
                i += 1
                continue
            if i in drop_tok:
                i += 1
                continue
            chunks.append((replace_tok.get(i, tk.s), tk.a, {}))
            if i == bo:
                if selfmut:
                    chunks.append(("\n let mut this = self;", None, {}))
                if entry:
                    chunks.append(("\n" + "\n".join(l for _, l in entry) + "\n", None, {"part": "entry"}))
            i += 1
        # R5: self -> this inside body
        if selfmut:
            chunks = [(("this" if (c[1] is not None and c[0] == "self") else c[0]), c[1], c[2]) for c in chunks]
        # R6 replacements operate on the assembled text of repo-origin chunks; do them on a joined string while
        # keeping line origins approximately (replacement text inherits the origin of the match start)
        if replaces:
            chunks = self.apply_replaces(chunks, replaces, path, rel)
        return chunks

    def apply_replaces(self, chunks, replaces, path, rel):
        # join into one string with offset map
        s = ""
        omap = []  # (start_in_s, chunk_index)
        for ci, c in enumerate(chunks):
            if c[0] == "NESTED":
                s += "\x00"
            else:
                s += c[0]
        def rx_of(old, is_rx):
            if is_rx:
                return re.compile(old)
            return re.compile(r"\s*".join(re.escape(t.s) for t in tokenize(old) if t.k not in ("ws", "com")))

        for cnt, old, new, ln, is_rx in replaces:
            rx = rx_of(old, is_rx)
            found = [m for m in rx.finditer(s)]
            if cnt == -4:
                continue
            if cnt == -1:
                self.count("hint" if found else "hint-dropped")
                continue
            if cnt == -2:
                if len(found) > 1:
                    raise Lost("%s (%s:%d): R6 pattern /%s/ matched %d times, expected at most 1" % (path, rel, ln, old, len(found)))
                self.count("R6" if found else "R6-absent")
                continue
            if cnt == -3:
                if not found:
                    raise Lost("%s (%s:%d): R6 pattern /%s/ not found" % (path, rel, ln, old))
                self.count("R6", len(found))
                continue
            if len(found) != cnt:
                raise Lost("%s (%s:%d): R6 pattern /%s/ matched %d times, expected %d" % (path, rel, ln, old, len(found), cnt))
            self.count("R6", cnt)
        # apply: rebuild chunk list as coarse chunks split around NESTED markers
        res = []
        pos = 0
        pieces = s.split("\x00")
        nested_chunks = [c for c in chunks if c[0] == "NESTED"]
        # origin offset: first repo-origin chunk of every piece
        piece_orig = []
        acc = None
        cur = []
        for c in chunks:
            if c[0] == "NESTED":
                piece_orig.append(cur)
                cur = []
            else:
                cur.append(c)
        piece_orig.append(cur)
        for pi, piece in enumerate(pieces):
            # per-line origin: recompute by walking original chunks to build a char->offset map
            cmap = []
            for c in piece_orig[pi]:
                cmap.extend([c[1]] * len(c[0]))
            txt = piece
            for cnt, old, new, ln, is_rx in replaces:
                if cnt == -4:
                    continue
                rx = rx_of(old, is_rx)
                pos = 0
                while True:
                    m = rx.search(txt, pos)
                    if not m:
                        break
                    rep = m.expand(new) if is_rx else new
                    if cnt == -1:
                        rep = new + " " + m.group(0)
                    o = next((x for x in cmap[m.start():m.end()] if x is not None), None)
                    txt = txt[:m.start()] + rep + txt[m.end():]
                    cmap = cmap[:m.start()] + [o] * len(rep) + cmap[m.end():]
                    pos = m.start() + len(rep)
                    if cnt == -1:
                        break
            for cnt, old, new, ln, is_rx in replaces:
                if cnt == -4 and re.search(old, txt):
                    raise Lost("%s (%s:%d): construct /%s/ is still present after the rewrites: its exit/drop elaboration is missing" % (path, rel, ln, old))
            # re-chunk by line
            start = 0
            for mm in re.finditer(r"[^\n]*\n|[^\n]+$", txt):
                seg = mm.group(0)
                o = next((x for x in cmap[mm.start():mm.end()] if x is not None), None)
                res.append((seg, o, {}))
            if pi < len(nested_chunks):
                res.append(nested_chunks[pi])
        return res

    def emit_chunks(self, chunks, ls, path):
        cur = ""
        cur_off = None
        extra = {}

        def flush():
            nonlocal cur, cur_off, extra
            if cur_off is not None:
                self.emit(cur, kind="repo", file=self.cur_src, line=offset_to_line(ls, cur_off), fn=path, part=extra.get("part", "body"))
            else:
                self.emit(cur, kind="spec", file=extra.get("spec_file"), fn=path, part=extra.get("part", "body"))
            cur, cur_off, extra = "", None, {}

        for t, off, kw in chunks:
            if t == "NESTED":
                if cur.strip():
                    flush()
                else:
                    cur = ""
                self.out.extend(kw["lines"])
                continue
            segs = t.split("\n")
            for si, sgm in enumerate(segs):
                if si > 0:
                    flush()
                if sgm:
                    cur += sgm
                    if off is not None and cur_off is None:
                        cur_off = off
                    if kw and cur_off is None:
                        extra = kw
        if cur:
            flush()

    _cur_world = None

    # ------------------------------------------------------------------ result
    def result(self):
        txt = "\n".join(l for l, _ in self.out) + "\n"
        return txt


def parse_opts(opts):
    o = {}
    for x in opts:
        if "=" in x:
            k, v = x.split("=", 1)
            o[k] = v
        else:
            o[x] = True
    return o


def clause_tags(line):
    m = re.search(r"//\s*\[([A-Z0-9, ]+)\]\s*$", line)
    return [x.strip() for x in m.group(1).split(",")] if m else []


def strip_attrs_and_comments(toks, a, b):
    out = []
    i = a
    while i < b:
        t = toks[i]
        if t.k == "com":
            i += 1
            continue
        if t.k == "p" and t.s == "#" and toks[sig(toks, i + 1)].s == "[":
            i = match_close(toks, sig(toks, i + 1)) + 1
            continue
        out.append(t.s)
        i += 1
    s = "".join(out)
    s = re.sub(r"\n\s*\n+", "\n", s)
    return s


def pub_fields(body):
    toks = tokenize(body)
    # find struct body
    i = 0
    while not (toks[i].k == "o" and toks[i].s == "{"):
        i += 1
    c = match_close(toks, i)
    out = [t.s for t in toks[: i + 1]]
    j = i + 1
    expect_field = True
    while j < c:
        t = toks[j]
        if t.k in ("ws", "com"):
            out.append(t.s)
            j += 1
            continue
        if expect_field and t.k == "id":
            if t.s != "pub":
                out.append("pub ")
            expect_field = False
        if t.k == "o":
            e = match_close(toks, j)
            out.append(text(toks, j, e + 1))
            j = e + 1
            continue
        if t.k == "p" and t.s == ",":
            expect_field = True
        # generic angle brackets may contain commas: track crude depth
        if t.k == "p" and t.s == "<":
            depth = 1
            out.append(t.s)
            j += 1
            while depth and j < c:
                if toks[j].s == "<":
                    depth += 1
                elif toks[j].s == ">" and toks[j - 1].s != "-":
                    depth -= 1
                if toks[j].k == "o":
                    e = match_close(toks, j)
                    out.append(text(toks, j, e + 1))
                    j = e + 1
                    continue
                out.append(toks[j].s)
                j += 1
            continue
        out.append(t.s)
        j += 1
    out.extend(t.s for t in toks[c:])
    return "".join(out)


def generate(repo, unit_path):
    g = Gen(repo, unit_path)
    # do_fn needs _cur_world per top-level fn
    orig_do_fn = g.do_fn

    def do_fn(path, opts, block, rel, lineno, within=None):
        if within is None:
            g._cur_world = parse_opts(opts).get("world")
        return orig_do_fn(path, opts, block, rel, lineno, within)

    g.do_fn = do_fn
    g.run()
    return g


if __name__ == "__main__":
    import argparse
    ap = argparse.ArgumentParser()
    ap.add_argument("unit")
    ap.add_argument("--repo", default="/repo")
    ap.add_argument("-o", "--out", default="-")
    ap.add_argument("--map")
    a = ap.parse_args()
    try:
        g = generate(a.repo, a.unit)
    except Lost as e:
        print("vgen: LOST ANCHOR: %s" % e, file=sys.stderr)
        sys.exit(2)
    txt = g.result()
    if a.out == "-":
        sys.stdout.write(txt)
    else:
        open(a.out, "w").write(txt)
    if a.map:
        json.dump(dict(lines=[o for _, o in g.out], functions=g.functions, rewrites=g.rewrites), open(a.map, "w"))
    print("vgen: %d lines, %d items, rewrites %s" % (len(g.out), len(g.functions), g.rewrites), file=sys.stderr)
