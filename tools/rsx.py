"""rsx -- a small token-level Rust source reader used by the Verus unit generator.

It does NOT parse Rust; it tokenizes (strings, raw strings, chars, lifetimes, nested comments) and
finds items by brace matching, which is all that is needed to copy the text of a function, struct or
impl verbatim and to apply the token-pattern rewrites R1..R8 of DESIGN.md section 2.2.

Every failure to find something raises Lost(...) -- the driver turns that into exit status 2
("tool/anchor problem"), never into a VIOLATION.
"""
import re


class Lost(Exception):
    """an anchor (item, loop ordinal, closure ordinal, rewrite pattern) was not found"""


class Tok:
    __slots__ = ("k", "s", "a", "b")

    def __init__(self, k, s, a, b):
        self.k, self.s, self.a, self.b = k, s, a, b

    def __repr__(self):
        return "%s:%r" % (self.k, self.s)


OPEN = "([{"
CLOSE = ")]}"
_ident = re.compile(r"[A-Za-z_][A-Za-z0-9_]*")
_num = re.compile(r"[0-9][A-Za-z0-9_]*(\.[0-9][A-Za-z0-9_]*)?")


def tokenize(src):
    """-> list of Tok; kinds: ws, com, id, lt (lifetime), chr, str, num, p (punct, one char), o, c"""
    toks = []
    i, n = 0, len(src)
    while i < n:
        c = src[i]
        if c.isspace():
            j = i
            while j < n and src[j].isspace():
                j += 1
            toks.append(Tok("ws", src[i:j], i, j))
            i = j
        elif src.startswith("//", i):
            j = src.find("\n", i)
            j = n if j < 0 else j
            toks.append(Tok("com", src[i:j], i, j))
            i = j
        elif src.startswith("/*", i):
            depth, j = 1, i + 2
            while j < n and depth:
                if src.startswith("/*", j):
                    depth += 1
                    j += 2
                elif src.startswith("*/", j):
                    depth -= 1
                    j += 2
                else:
                    j += 1
            toks.append(Tok("com", src[i:j], i, j))
            i = j
        elif c == '"' or (c == "b" and src.startswith('b"', i)):
            j = i + (2 if c == "b" else 1)
            while j < n and src[j] != '"':
                j += 2 if src[j] == "\\" else 1
            j += 1
            toks.append(Tok("str", src[i:j], i, j))
            i = j
        elif (c == "r" or (c == "b" and src.startswith("br", i))) and re.match(r'b?r#*"', src[i:i + 40]):
            m = re.match(r'b?r(#*)"', src[i:i + 40])
            end = '"' + m.group(1)
            j = src.find(end, i + len(m.group(0)))
            if j < 0:
                raise Lost("unterminated raw string")
            j += len(end)
            toks.append(Tok("str", src[i:j], i, j))
            i = j
        elif c == "'" or (c == "b" and src.startswith("b'", i)):
            k = i + (1 if c == "b" else 0)
            # char literal or lifetime
            m = re.match(r"'(\\.[^']*|[^'\\])'", src[k:k + 16])
            if m:
                j = k + len(m.group(0))
                toks.append(Tok("chr", src[i:j], i, j))
                i = j
            else:
                m = _ident.match(src, k + 1)
                if not m:
                    raise Lost("bad quote at %d" % i)
                toks.append(Tok("lt", src[i:m.end()], i, m.end()))
                i = m.end()
        elif c.isalpha() or c == "_":
            m = _ident.match(src, i)
            toks.append(Tok("id", m.group(0), i, m.end()))
            i = m.end()
        elif c.isdigit():
            m = _num.match(src, i)
            # do not swallow "0..n" as a float
            s = m.group(0)
            if "." in s and src.startswith("..", i + s.index(".")):
                s = s[: s.index(".")]
            toks.append(Tok("num", s, i, i + len(s)))
            i += len(s)
        elif c in OPEN:
            toks.append(Tok("o", c, i, i + 1))
            i += 1
        elif c in CLOSE:
            toks.append(Tok("c", c, i, i + 1))
            i += 1
        else:
            toks.append(Tok("p", c, i, i + 1))
            i += 1
    return toks


def match_close(toks, i):
    """toks[i] is an opener; -> index of the matching closer"""
    assert toks[i].k == "o", toks[i]
    depth = 0
    for j in range(i, len(toks)):
        if toks[j].k == "o":
            depth += 1
        elif toks[j].k == "c":
            depth -= 1
            if depth == 0:
                return j
    raise Lost("unbalanced bracket at offset %d" % toks[i].a)


def sig(toks, i):
    """index of next significant token at or after i (len(toks) if none)"""
    while i < len(toks) and toks[i].k in ("ws", "com"):
        i += 1
    return i


def prev_sig(toks, i):
    i -= 1
    while i >= 0 and toks[i].k in ("ws", "com"):
        i -= 1
    return i


def text(toks, a, b):
    return "".join(t.s for t in toks[a:b])


class Item:
    """kind in: mod fn struct enum impl trait const static type use macro other"""

    def __init__(self, kind, name, toks, start, head_end, end, attrs, body_open=None):
        self.kind, self.name, self.toks = kind, name, toks
        self.start = start  # first token of the item proper (after attributes, at `pub`/keyword)
        self.attr_start = attrs[0] if attrs else start
        self.attrs = attrs  # list of (a, b) token ranges of #[...] attributes
        self.body_open = body_open  # index of `{` opening the body (mod/fn/impl/struct/enum/trait) or None
        self.end = end  # one past last token

    def attr_texts(self):
        return [re.sub(r"\s+", "", text(self.toks, a, b)) for a, b in self.attrs]

    def has_cfg(self, what):
        return ("#[cfg(%s)]" % what) in self.attr_texts()

    def header(self):
        return text(self.toks, self.start, self.body_open if self.body_open is not None else self.end)

    def body(self):
        c = match_close(self.toks, self.body_open)
        return text(self.toks, self.body_open + 1, c)

    def full(self):
        return text(self.toks, self.start, self.end)

    def line(self, src_line_starts):
        return offset_to_line(src_line_starts, self.toks[self.start].a)


ITEM_KW = {"mod", "fn", "struct", "enum", "impl", "trait", "const", "static", "type", "use", "macro_rules",
           "thread_local", "extern", "union"}
QUAL = {"pub", "unsafe", "async", "default", "extern"}


def items_in(toks, a, b):
    """Enumerate items among toks[a:b] at nesting depth 0.  Statement-level expressions inside fn
    bodies are skipped (only `fn`, `enum`, `struct`, `const`, ... introduced at statement start are seen)."""
    out = []
    i = a
    attrs = []
    stmt_start = True
    while i < b:
        t = toks[i]
        if t.k in ("ws", "com"):
            i += 1
            continue
        if stmt_start and t.k == "p" and t.s == "#" and sig(toks, i + 1) < b and toks[sig(toks, i + 1)].s in ("[", "!"):
            j = sig(toks, i + 1)
            if toks[j].s == "!":
                j = sig(toks, j + 1)
            e = match_close(toks, j) + 1
            attrs.append((i, e))
            i = e
            continue
        if stmt_start and t.k == "id" and (t.s in ITEM_KW or t.s in QUAL):
            start = i
            j = i
            # qualifiers: pub, pub(crate), unsafe, extern "C" ...
            while toks[j].k == "id" and toks[j].s in QUAL:
                j = sig(toks, j + 1)
                if toks[j].k == "o" and toks[j].s == "(" and toks[prev_sig(toks, j)].s == "pub":
                    j = sig(toks, match_close(toks, j) + 1)
                if toks[j].k == "str":
                    j = sig(toks, j + 1)
            kw = toks[j]
            if kw.k == "id" and kw.s in ITEM_KW:
                it, i = _read_item(toks, start, j, b, attrs)
                if it is not None:
                    out.append(it)
                attrs = []
                stmt_start = True
                continue
        # not an item: skip one token tree, tracking statement boundaries
        if t.k == "o":
            e = match_close(toks, i)
            stmt_start = t.s == "{"
            i = e + 1
            if toks[e].s != "}":
                stmt_start = False
        else:
            stmt_start = t.k == "p" and t.s == ";"
            i += 1
        attrs = [] if stmt_start else attrs
    return out


def _read_item(toks, start, kwi, limit, attrs):
    kw = toks[kwi].s
    j = sig(toks, kwi + 1)
    if kw == "const" and toks[j].k == "id" and toks[j].s in ("fn", "unsafe"):
        # const fn
        while toks[j].s != "fn":
            j = sig(toks, j + 1)
        kwi, kw = j, "fn"
        j = sig(toks, kwi + 1)
    if kw == "impl":
        # name = normalized header text between `impl` and `{` (generics dropped if leading)
        k = kwi + 1
        # find body `{`
        depth_angle = 0
        while not (toks[k].k == "o" and toks[k].s == "{"):
            if toks[k].k == "o":
                k = match_close(toks, k)
            k += 1
        name = re.sub(r"\s+", " ", text(toks, kwi + 1, k)).strip()
        name = re.sub(r"^<[^>]*>\s*", "", name)
        name = re.sub(r"\s+where\s.*$", "", name)
        e = match_close(toks, k) + 1
        return Item("impl", name, toks, start, k, e, attrs, k), e
    if kw in ("macro_rules", "thread_local"):
        # macro invocation item: name!( ... ); or name! { ... }
        k = kwi
        while toks[k].k != "o":
            k += 1
        e = match_close(toks, k) + 1
        s2 = sig(toks, e)
        if s2 < len(toks) and toks[s2].s == ";":
            e = s2 + 1
        return Item("macro", kw, toks, start, k, e, attrs), e
    if kw == "use" or kw == "extern":
        k = kwi
        while not (toks[k].k == "p" and toks[k].s == ";"):
            if toks[k].k == "o":
                k = match_close(toks, k)
            k += 1
        return Item("use", re.sub(r"\s+", "", text(toks, kwi + 1, k)), toks, start, k, k + 1, attrs), k + 1
    name = toks[j].s if toks[j].k == "id" else "?"
    # scan to body `{` or terminating `;` at depth 0
    k = j + 1
    while True:
        t = toks[k]
        if t.k == "o" and t.s == "{":
            e = match_close(toks, k) + 1
            kind = kw
            # tuple struct `struct X(..);` handled below; `struct X { }` here
            return Item(kind, name, toks, start, k, e, attrs, k), e
        if t.k == "o":
            k = match_close(toks, k) + 1
            continue
        if t.k == "p" and t.s == ";":
            return Item(kw, name, toks, start, k, k + 1, attrs), k + 1
        if t.k == "p" and t.s == "=" and kw in ("const", "static", "type"):
            # initializer may contain braces; run to `;` at depth 0
            while not (toks[k].k == "p" and toks[k].s == ";"):
                if toks[k].k == "o":
                    k = match_close(toks, k)
                k += 1
            return Item(kw, name, toks, start, k, k + 1, attrs), k + 1
        k += 1


def find_item(toks, path):
    """path: 'raw[unix]::RawCommunicator::read_into' ; impl segments match the implemented type name,
    or write `impl(Trait for Type)` to pick a trait impl.  -> Item"""
    segs = split_path(path)
    a, b = 0, len(toks)
    it = None
    for si, seg in enumerate(segs):
        m = re.match(r"^(.*?)(?:\[(\w+)\])?$", seg)
        name, cfg = m.group(1), m.group(2)
        cands = []
        for c in items_in(toks, a, b):
            if cfg and not c.has_cfg(cfg):
                continue
            if not cfg and any(x.startswith("#[cfg(windows)") for x in c.attr_texts()):
                continue
            if name.startswith("impl(") and c.kind == "impl":
                want = re.sub(r"\s+", " ", name[5:-1]).strip()
                if c.name == want:
                    cands.append(c)
            elif c.kind == "impl":
                # inherent impl of Type, or any impl whose self type is `name` when descending to a member
                ty = c.name.split(" for ")[-1].strip()
                ty = re.sub(r"<.*$", "", ty)
                if ty == name and si < len(segs) - 1:
                    # only descend if the next segment exists inside
                    nxt = re.match(r"^(.*?)(?:\[(\w+)\])?$", segs[si + 1]).group(1)
                    inner = items_in(toks, c.body_open + 1, match_close(toks, c.body_open))
                    if any(x.name == nxt for x in inner):
                        cands.append(c)
            elif c.name == name:
                if si < len(segs) - 1 and c.kind not in ("mod", "fn", "trait"):
                    continue
                cands.append(c)
        if not cands:
            raise Lost("item not found: %s (segment %r)" % (path, seg))
        if len(cands) > 1:
            # prefer non-impl exact-name items when last segment
            ex = [c for c in cands if c.kind != "impl"] if si == len(segs) - 1 else cands
            if len(ex) != 1:
                raise Lost("ambiguous item: %s (segment %r, %d candidates)" % (path, seg, len(cands)))
            cands = ex
        it = cands[0]
        if si < len(segs) - 1:
            if it.body_open is None:
                raise Lost("cannot descend into %s" % seg)
            a, b = it.body_open + 1, match_close(toks, it.body_open)
    return it


def split_path(path):
    out, depth, cur = [], 0, ""
    i = 0
    while i < len(path):
        if path[i] in "(<":
            depth += 1
        elif path[i] in ")>":
            depth -= 1
        if depth == 0 and path.startswith("::", i):
            out.append(cur)
            cur = ""
            i += 2
            continue
        cur += path[i]
        i += 1
    out.append(cur)
    return out


def line_starts(src):
    ls = [0]
    for m in re.finditer("\n", src):
        ls.append(m.end())
    return ls


def offset_to_line(ls, off):
    import bisect
    return bisect.bisect_right(ls, off)
