#!/usr/bin/env python3
"""confirm_seed -- confirm a seeded change myself in its scratch worktree: applies, compiles, the existing test suite passes with it,
the demonstration fails with it and passes without it.  usage: confirm_seed.py Cxx mN   -> prints a JSON line"""
import json, os, subprocess, sys, shutil
prop, m = sys.argv[1], sys.argv[2]
pre = os.environ.get("SEED_PREFIX", "wt")
wt = "/tmp/%s-%s" % (pre, prop)
out = "/tmp/%s-%s-out/%s" % (pre, prop, m)
env = dict(os.environ, CARGO_NET_OFFLINE="true", CARGO_TARGET_DIR="/tmp/%s-target-%s" % (pre, prop))
def sh(cmd, timeout=900, cwd=wt):
    try:
        p = subprocess.run(cmd, shell=True, cwd=cwd, env=env, capture_output=True, text=True, timeout=timeout)
        return p.returncode, (p.stdout + p.stderr)[-1500:]
    except subprocess.TimeoutExpired:
        return 124, "timeout"
res = dict(property=prop, mutation=m)
sh("git checkout -- . && git clean -fdq examples")
# bring the worktree to /repo's HEAD (the fixes made since the agent ran)
head = subprocess.run("git -C /repo rev-parse HEAD", shell=True, capture_output=True, text=True).stdout.strip()
sh("git checkout -q --detach %s" % head)
demo = os.path.join(out, "demo.rs")
standalone = prop == "C20"
def run_demo(tag):
    if standalone:
        rc, o = sh("rustc --edition 2018 -O -o /tmp/demo_%s_%s %s 2>&1 && /tmp/demo_%s_%s %s" % (prop, m, demo, prop, m, "mutated" if tag == "with" else ""), cwd=out, timeout=300)
        return rc, o
    shutil.copy(demo, os.path.join(wt, "examples", "demo_%s.rs" % m))
    rc, o = sh("cargo build --offline --example demo_%s 2>&1 | tail -3; timeout 120 cargo run --offline -q --example demo_%s" % (m, m), timeout=600)
    os.remove(os.path.join(wt, "examples", "demo_%s.rs" % m))
    return rc, o
rc, o = run_demo("without")
res["demo_passes_without_patch"] = (rc == 0)
res["demo_without_tail"] = o[-300:]
rc, o = sh("git apply %s/patch.diff" % out)
if rc != 0:
    rc, o = sh("patch -p1 -i %s/patch.diff" % out)
res["applies"] = (rc == 0)
if rc == 0:
    rc, o = sh("cargo build --offline 2>&1 | tail -3")
    res["compiles"] = (rc == 0)
    rc, o = sh("cargo test --offline 2>&1 | grep -E '^test result|FAILED|panicked' | head -8", timeout=900)
    res["tests_pass"] = ("FAILED" not in o and "failed" not in o.replace("0 failed", "") and "test result: ok" in o)
    res["tests_tail"] = o[-400:]
    rc, o = run_demo("with")
    res["demo_fails_with_patch"] = (rc != 0)
    res["demo_with_tail"] = o[-300:]
sh("git checkout -- . && git clean -fdq examples")
print(json.dumps(res))
