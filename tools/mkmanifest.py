#!/usr/bin/env python3
"""regenerate MANIFEST.json from tools/plan.py (claimed properties) and tools/manifest_text.py (wording)"""
import json, os, sys
sys.path.insert(0, os.path.dirname(os.path.abspath(__file__)))
import plan, manifest_text as T
V = os.path.dirname(os.path.dirname(os.path.abspath(__file__)))
props = [json.loads(l)["id"] for l in open(os.path.join(V, "properties.jsonl"))]
checks = []
for p in props:
    if p not in plan.PROPS:
        continue
    t = T.CHECKS[p]
    checks.append(dict(
        property_id=p,
        quick_cmd="./check %s --tier quick" % p,
        thorough_cmd="./check %s --tier thorough" % p,
        evidence_file="evidence/%s.json" % p,
        replay_cmd_template="./check %s --replay {path}" % p,
        engine="check",
        level_claimed=dict(category=plan.PROPS[p]["level"], text=t["text"], design_ref=t["design_ref"]),
        level_note=t["note"],
        technique=t["technique"],
    ))
na = [dict(property_id=p, reason=T.NOT_APPLICABLE.get(p, "check under construction; not claimed yet")) for p in props if p not in plan.PROPS]
m = dict(
    version=1,
    setup_cmd="verus --version >/dev/null && (cd scenarios && CARGO_TARGET_DIR=/verif/.cache/scn-target cargo build --offline --quiet)",
    hooks=dict(guard="kani", enable="no hook lives in /repo: Verus units are extracted from /repo's working tree on every run; Kani harness modules (cfg(kani), set only by cargo-kani) are injected add-only into a scratch copy by ./check",
               baseline_off_cmd="cd /repo && cargo test --workspace --no-fail-fast --offline", source_commits=[], add_only=True),
    engines=[dict(name="check", path="check", serves_properties=[c["property_id"] for c in checks],
                  kind_free_text="contract-based deductive verification: real functions extracted mechanically (tools/vgen.py) into Verus units with contracts (units/*.vt.rs) against trusted OS-model shims; Kani harnesses on the real crate for the posix wrappers")],
    checks=checks,
    notes=T.NOTES,
    not_applicable=na,
)
json.dump(m, open(os.path.join(V, "MANIFEST.json"), "w"), indent=1)
print("MANIFEST: %d checks, %d not claimed" % (len(checks), len(na)))
