#!/bin/sh
# run every claimed check once on the current tree; print one line per property
cd /verif
for p in $(python3 -c "import sys; sys.path.insert(0,'tools'); import plan; print(' '.join(sorted(plan.PROPS)))"); do
  s=$(date +%s); out=$(./check $p 2>&1); rc=$?; e=$(date +%s)
  echo "$p rc=$rc $((e-s))s $(echo "$out" | grep -E 'OK|VIOLATION|PROBLEM|KNOWN' | head -3 | tr '\n' ' ')"
done
