#!/usr/bin/env python3
"""seed3 -- third-round intake of one property's seeded changes (m5, m6) from /tmp/wt3-<P>-out: confirm (tools/confirm_seed.py), copy to
/verif/seeded/<P>-<m>/ with meta.json, run the property's check against it (tools/seedtest.py) and record the first result.
usage: seed3.py PROP [m5 m6]"""
import json, os, shutil, subprocess, sys, re
V = os.path.dirname(os.path.dirname(os.path.abspath(__file__)))
p = sys.argv[1]
ms = sys.argv[2:] or ["m5", "m6"]
for m in ms:
    src = "/tmp/wt3-%s-out/%s" % (p, m)
    if not os.path.exists(src + "/patch.diff"):
        print(p, m, "no patch"); continue
    r = subprocess.run([sys.executable, V + "/tools/confirm_seed.py", p, m], env=dict(os.environ, SEED_PREFIX="wt3"), capture_output=True, text=True)
    try:
        c = json.loads(r.stdout.strip().split("\n")[-1])
    except Exception:
        print(p, m, "confirm failed", r.stdout[-300:], r.stderr[-300:]); continue
    ok = all(c.get(k) for k in ("applies", "compiles", "tests_pass", "demo_passes_without_patch", "demo_fails_with_patch"))
    if not ok:
        print(p, m, "NOT CONFIRMED", json.dumps(c)[:900]); continue
    dst = os.path.join(V, "seeded", "%s-%s" % (p, m))
    os.makedirs(dst, exist_ok=True)
    shutil.copy(src + "/patch.diff", dst); shutil.copy(src + "/demo.rs", dst)
    try:
        am = json.load(open(src + "/meta.json"))
    except Exception:
        am = {}
    t = subprocess.run([sys.executable, V + "/tools/seedtest.py", p, dst + "/patch.diff"], capture_output=True, text=True)
    line = (t.stdout.strip().split("\n") or [""])[-1]
    mm = re.search(r"check=(C\d+) rc=(\d+) ?(.*)$", line)
    rc, what = (int(mm.group(2)), mm.group(3).strip()) if mm else (None, line[-300:])
    verdict = {0: "MISSED (check exits 0)", 1: "DETECTED (VIOLATION)", 2: "NOT DECIDED (tool problem, exit 2)"}.get(rc, "not run")
    meta = dict(property=p, round=3, summary=am.get("summary"), needs=am.get("needs"), files=am.get("files"),
                author="independent sub-agent (third round) given the property text, one-line summaries of the earlier changes to avoid, and a scratch worktree",
                confirmed_by_me=dict(applies=c["applies"], compiles=c["compiles"], existing_tests_pass=c["tests_pass"], demo_passes_without_patch=c["demo_passes_without_patch"],
                                     demo_fails_with_patch=c["demo_fails_with_patch"], how="tools/confirm_seed.py (SEED_PREFIX=wt3) in the scratch worktree at /repo's HEAD"),
                first_run=dict(outcome=verdict, detail=what[:500]),
                check_result=dict(command="tools/seedtest.py %s seeded/%s-%s/patch.diff" % (p, p, m), outcome=verdict, first_failed_obligation=what[:500]))
    json.dump(meta, open(dst + "/meta.json", "w"), indent=1)
    print(p, m, "CONFIRMED", verdict, what[:260], flush=True)
