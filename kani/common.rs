// shared stubs for the harness modules
#![allow(dead_code, static_mut_refs)]
use crate::verif_kani::libc_model::{fcntl3, model_close, ERRNO};

// `check_err` reads std's private errno; under Kani it reads the model's errno instead.  The 4-line function is
// therefore TRUSTED under Kani (listed in the evidence).
pub fn model_check_err<T: Ord + Default>(num: T) -> std::io::Result<T> {
    if num < T::default() {
        return Err(std::io::Error::from_raw_os_error(unsafe { ERRNO }));
    }
    Ok(num)
}
// dropping a File / OwnedFd closes the descriptor: route it to the model so descriptor lifetime is observable
pub fn model_ownedfd_drop(fd: &mut std::os::fd::OwnedFd) {
    use std::os::unix::io::AsRawFd;
    unsafe { model_close(fd.as_raw_fd()) }
}
pub fn model_fcntl(fd: i32, cmd: i32, arg1: Option<i32>) -> std::io::Result<i32> {
    let r = unsafe { fcntl3(fd, cmd, arg1.unwrap_or(0)) };
    model_check_err(r)
}
// std's clock is a foreign call; the harnesses that reach Instant::now() only need *an* instant
pub fn model_now() -> std::time::Instant {
    unsafe { std::mem::zeroed() }
}
