// harnesses inside popen::os (unix): set_inheritable (R6 seam of the spawn unit) and format_env (bounded)
#![allow(static_mut_refs)]
use super::*;
use crate::verif_kani::common::*;
use crate::verif_kani::libc_model as m;

// ---- C08: set_inheritable(f, false) = F_GETFD then F_SETFD(old | FD_CLOEXEC): afterwards the descriptor is close-on-exec and
// no other descriptor flag was changed; set_inheritable(f, true) touches nothing
#[kani::proof]
#[kani::stub(crate::posix::fcntl, model_fcntl)]
#[kani::stub(<std::os::fd::OwnedFd as std::ops::Drop>::drop, model_ownedfd_drop)]
fn w_set_inheritable() {
    use std::os::unix::io::FromRawFd;
    let fd: i32 = kani::any();
    kani::assume(fd >= 0 && (fd as usize) < m::NFD);
    let inheritable: bool = kani::any();
    unsafe {
        m::OPEN[fd as usize] = true;
        m::CLOEXEC = kani::any();
        m::FCNTL_CALLS = 0;
    }
    let before = unsafe { m::CLOEXEC };
    let f = unsafe { File::from_raw_fd(fd) };
    let r = set_inheritable(&f, inheritable);
    unsafe {
        if inheritable {
            assert!(r.is_ok() && m::FCNTL_CALLS == 0);
        } else if r.is_ok() {
            assert!(m::FCNTL_CALLS == 2);
            assert!(m::FCNTL_LOG[0].0 == fd && m::FCNTL_LOG[0].1 == libc::F_GETFD);
            assert!(m::FCNTL_LOG[1].0 == fd && m::FCNTL_LOG[1].1 == libc::F_SETFD);
            assert!(m::CLOEXEC[fd as usize]);
            // the new flag word is the old one plus FD_CLOEXEC
            assert!(m::FCNTL_LOG[1].2 & !libc::FD_CLOEXEC == m::LAST_GETFD & !libc::FD_CLOEXEC);
        }
        let mut i = 0;
        while i < m::NFD {
            if i != fd as usize || r.is_err() || inheritable { assert!(m::CLOEXEC[i] == before[i] || (i == fd as usize && !inheritable)); }
            i += 1;
        }
    }
    kani::cover!(r.is_ok() && !inheritable);
    kani::cover!(r.is_err());
    std::mem::forget(f);
}

// ---- C06 (bounded): format_env = "key=value" for the last binding of each key, in order of last occurrence
fn any_os(max: usize) -> OsString {
    use std::os::unix::ffi::OsStringExt;
    let len: usize = kani::any();
    kani::assume(len <= max);
    let mut v = Vec::new();
    let mut i = 0;
    while i < len {
        let b: u8 = kani::any();
        kani::assume(b == b'a' || b == b'b');
        v.push(b);
        i += 1;
    }
    OsString::from_vec(v)
}
fn triv_write(_h: &mut std::hash::DefaultHasher, _b: &[u8]) {}
fn triv_finish(_h: &std::hash::DefaultHasher) -> u64 { 0 }
fn fixed_random_state() -> std::hash::RandomState { unsafe { std::mem::transmute::<(u64, u64), std::hash::RandomState>((1, 2)) } }
#[kani::proof]
#[kani::stub(std::hash::RandomState::new, fixed_random_state)]
#[kani::stub(<std::hash::DefaultHasher as std::hash::Hasher>::write, triv_write)]
#[kani::stub(<std::hash::DefaultHasher as std::hash::Hasher>::finish, triv_finish)]
#[kani::unwind(9)]
fn b_format_env_b2() {
    let e = vec![(any_os(1), any_os(1)), (any_os(1), any_os(1))];
    let out = format_env(&e);
    if e[0].0 == e[1].0 {
        assert!(out.len() == 1);
        let mut exp = e[1].0.clone();
        exp.push("=");
        exp.push(&e[1].1);
        assert!(out[0] == exp);
    } else {
        assert!(out.len() == 2);
        let mut exp0 = e[0].0.clone();
        exp0.push("=");
        exp0.push(&e[0].1);
        assert!(out[0] == exp0);
        let mut exp1 = e[1].0.clone();
        exp1.push("=");
        exp1.push(&e[1].1);
        assert!(out[1] == exp1);
    }
}
