// libc model for Kani (trusted): `src/posix.rs` is compiled with `use crate::verif_kani::libc_model as libc;`
// appended under cfg(kani), so every `libc::…` path in that file resolves here.  Types, constants and the
// status-word macros (WIFEXITED …) are the real libc crate's; the functions below replace the foreign calls
// and record what they were asked to do.
#![allow(dead_code, static_mut_refs, unused_unsafe)]
pub use ::libc::*;
use ::libc;

pub static mut ERRNO: i32 = 0;
fn fail() -> i32 {
    unsafe {
        ERRNO = kani::any();
        kani::assume(ERRNO > 0 && ERRNO < 4096);
    }
    -1
}

// ------------------------------------------------------------------ one child process
pub static mut CHILD_PID: i32 = 0;
pub static mut CHILD_STATE: u8 = 0; // 0 running, 1 zombie, 2 reaped/unknown
pub static mut CHILD_STATUS: i32 = 0;
pub static mut WAITPID_CALLS: u32 = 0;
pub static mut LAST_WAIT: (i32, i32) = (0, 0);
pub unsafe fn waitpid(pid: libc::pid_t, status: *mut libc::c_int, options: libc::c_int) -> libc::pid_t {
    WAITPID_CALLS += 1;
    LAST_WAIT = (pid, options);
    if pid != CHILD_PID || CHILD_STATE == 2 {
        ERRNO = libc::ECHILD;
        return -1;
    }
    if CHILD_STATE == 0 {
        if options & libc::WNOHANG != 0 {
            return 0;
        }
        CHILD_STATE = 1; // blocking: returns when the child has terminated
    }
    *status = CHILD_STATUS;
    CHILD_STATE = 2;
    pid
}
pub static mut KILL_CALLS: u32 = 0;
pub static mut LAST_KILL: (i32, i32) = (0, 0);
pub unsafe fn kill(pid: libc::pid_t, sig: libc::c_int) -> libc::c_int {
    KILL_CALLS += 1;
    LAST_KILL = (pid, sig);
    if kani::any() { 0 } else { fail() }
}

// ------------------------------------------------------------------ descriptors
pub const NFD: usize = 8;
pub static mut OPEN: [bool; NFD] = [false; NFD];
pub static mut CLOEXEC: [bool; NFD] = [false; NFD];
pub static mut OBJ: [i32; NFD] = [0; NFD]; // open file description behind each descriptor
pub static mut NEXT_OBJ: i32 = 100;
pub static mut CLOSE_CALLS: u32 = 0;
fn lowest_free() -> Option<usize> {
    let mut i = 0;
    while i < NFD {
        if unsafe { !OPEN[i] } { return Some(i); }
        i += 1;
    }
    None
}
pub static mut PIPE_CALLS: u32 = 0;
pub unsafe fn pipe(fds: *mut libc::c_int) -> libc::c_int { pipe2(fds, 0) }
pub unsafe fn pipe2(fds: *mut libc::c_int, flags: libc::c_int) -> libc::c_int {
    PIPE_CALLS += 1;
    if kani::any() { return fail(); }
    let a = match lowest_free() { Some(a) => a, None => { ERRNO = libc::EMFILE; return -1; } };
    OPEN[a] = true;
    let b = match lowest_free() { Some(b) => b, None => { OPEN[a] = false; ERRNO = libc::EMFILE; return -1; } };
    OPEN[b] = true;
    let ce = flags & libc::O_CLOEXEC != 0;     // pipe2(O_CLOEXEC): both ends are born close-on-exec; plain pipe(): inheritable
    CLOEXEC[a] = ce; CLOEXEC[b] = ce;
    OBJ[a] = NEXT_OBJ; OBJ[b] = NEXT_OBJ + 1; NEXT_OBJ += 2;
    *fds = a as i32;
    *fds.add(1) = b as i32;
    0
}
pub static mut FCNTL_LOG: [(i32, i32, i32); 4] = [(0, 0, 0); 4];
pub static mut FCNTL_CALLS: usize = 0;
pub static mut LAST_GETFD: i32 = 0;
// libc::fcntl is C-variadic and cannot be modelled by shadowing; harnesses stub the 6-line wrapper `posix::fcntl`
// with `common::model_fcntl` instead (the wrapper itself is trusted, listed in the evidence).
pub unsafe fn fcntl3(fd: libc::c_int, cmd: libc::c_int, arg: i32) -> libc::c_int {
    if FCNTL_CALLS < 4 { FCNTL_LOG[FCNTL_CALLS] = (fd, cmd, arg); }
    FCNTL_CALLS += 1;
    if fd < 0 || fd as usize >= NFD || !OPEN[fd as usize] { ERRNO = libc::EBADF; return -1; }
    if kani::any() { return fail(); }
    if cmd == libc::F_GETFD {
        // other descriptor flags may exist; only FD_CLOEXEC is modelled, the rest is an arbitrary bit pattern
        let other: i32 = kani::any();
        kani::assume(other >= 0 && other & libc::FD_CLOEXEC == 0);
        LAST_GETFD = other | if CLOEXEC[fd as usize] { libc::FD_CLOEXEC } else { 0 };
        LAST_GETFD
    } else if cmd == libc::F_SETFD {
        CLOEXEC[fd as usize] = arg & libc::FD_CLOEXEC != 0;
        0
    } else {
        ERRNO = libc::EINVAL;
        -1
    }
}
pub static mut LAST_DUP2: (i32, i32) = (0, 0);
pub static mut DUP2_CALLS: u32 = 0;
pub unsafe fn dup2(oldfd: libc::c_int, newfd: libc::c_int) -> libc::c_int {
    DUP2_CALLS += 1;
    LAST_DUP2 = (oldfd, newfd);
    if oldfd < 0 || oldfd as usize >= NFD || !OPEN[oldfd as usize] || newfd < 0 || newfd as usize >= NFD { ERRNO = libc::EBADF; return -1; }
    if kani::any() { return fail(); }
    if oldfd != newfd {
        OPEN[newfd as usize] = true;
        OBJ[newfd as usize] = OBJ[oldfd as usize];
        CLOEXEC[newfd as usize] = false;
    }
    newfd
}
pub unsafe fn model_close(fd: i32) {
    CLOSE_CALLS += 1;
    if fd >= 0 && (fd as usize) < NFD { OPEN[fd as usize] = false; }
}

// ------------------------------------------------------------------ fork / identity / exit
pub static mut FORK_CALLS: u32 = 0;
pub static mut FORK_RESULT: i32 = 0;
pub unsafe fn fork() -> libc::pid_t {
    FORK_CALLS += 1;
    FORK_RESULT = kani::any();
    if FORK_RESULT < 0 { return fail(); }
    FORK_RESULT
}
pub static mut LAST_SETUID: (u32, u32) = (0, 0); // (calls, arg)
pub static mut LAST_SETGID: (u32, u32) = (0, 0);
pub static mut LAST_SETPGID: (u32, i32, i32) = (0, 0, 0);
pub unsafe fn setuid(uid: libc::uid_t) -> libc::c_int { LAST_SETUID = (LAST_SETUID.0 + 1, uid); if kani::any() { 0 } else { fail() } }
pub unsafe fn setgid(gid: libc::gid_t) -> libc::c_int { LAST_SETGID = (LAST_SETGID.0 + 1, gid); if kani::any() { 0 } else { fail() } }
// the other identity-changing calls: a wrapper that uses one of them instead of setuid/setgid changes only part of the identity
// (e.g. seteuid leaves the real uid): recorded so that the harness can demand that none is used
pub static mut OTHER_ID_CALLS: u32 = 0;
pub unsafe fn seteuid(_uid: libc::uid_t) -> libc::c_int { OTHER_ID_CALLS += 1; if kani::any() { 0 } else { fail() } }
pub unsafe fn setegid(_gid: libc::gid_t) -> libc::c_int { OTHER_ID_CALLS += 1; if kani::any() { 0 } else { fail() } }
pub unsafe fn setreuid(_r: libc::uid_t, _e: libc::uid_t) -> libc::c_int { OTHER_ID_CALLS += 1; if kani::any() { 0 } else { fail() } }
pub unsafe fn setregid(_r: libc::gid_t, _e: libc::gid_t) -> libc::c_int { OTHER_ID_CALLS += 1; if kani::any() { 0 } else { fail() } }
pub unsafe fn setresuid(_r: libc::uid_t, _e: libc::uid_t, _s: libc::uid_t) -> libc::c_int { OTHER_ID_CALLS += 1; if kani::any() { 0 } else { fail() } }
pub unsafe fn setresgid(_r: libc::gid_t, _e: libc::gid_t, _s: libc::gid_t) -> libc::c_int { OTHER_ID_CALLS += 1; if kani::any() { 0 } else { fail() } }
pub unsafe fn setpgid(pid: libc::pid_t, pgid: libc::pid_t) -> libc::c_int { LAST_SETPGID = (LAST_SETPGID.0 + 1, pid, pgid); if kani::any() { 0 } else { fail() } }

pub static mut CHDIR_CALLS: u32 = 0;
pub static mut CHDIR_ARG: *const libc::c_char = core::ptr::null();
pub unsafe fn chdir(dir: *const libc::c_char) -> libc::c_int { CHDIR_CALLS += 1; CHDIR_ARG = dir; if kani::any() { 0 } else { fail() } }

// ------------------------------------------------------------------ signals
pub static mut MASK_EMPTY: bool = false;
pub static mut SIGPIPE_DEFAULT: bool = false;
pub static mut SIGSET_IS_EMPTY: bool = false; // what the last sigemptyset produced
pub unsafe fn sigemptyset(set: *mut libc::sigset_t) -> libc::c_int {
    if kani::any() { return fail(); }
    *set = core::mem::zeroed();
    0
}
pub unsafe fn pthread_sigmask(how: libc::c_int, set: *const libc::sigset_t, oldset: *mut libc::sigset_t) -> libc::c_int {
    if kani::any() { return fail(); }
    let _ = oldset;
    if how == libc::SIG_SETMASK && !set.is_null() {
        // the mask installed is empty iff every word of *set is zero
        let words = core::slice::from_raw_parts(set as *const u64, core::mem::size_of::<libc::sigset_t>() / 8);
        let mut all_zero = true;
        let mut i = 0;
        while i < words.len() { if words[i] != 0 { all_zero = false; } i += 1; }
        MASK_EMPTY = all_zero;
    }
    0
}
pub unsafe fn signal(signum: libc::c_int, handler: libc::sighandler_t) -> libc::sighandler_t {
    if kani::any() { ERRNO = libc::EINVAL; return libc::SIG_ERR; }
    if signum == libc::SIGPIPE { SIGPIPE_DEFAULT = handler == libc::SIG_DFL; }
    // the previous disposition: whatever the embedding program set up (the Rust runtime ignores SIGPIPE, a C host or a test
    // harness may have it at the default or on a handler); never SIG_ERR on this path
    let prev: libc::sighandler_t = kani::any();
    kani::assume(prev != libc::SIG_ERR);
    prev
}

// ------------------------------------------------------------------ poll
pub static mut POLL_CALLS: u32 = 0;
pub static mut POLL_SEEN: [(i32, i16); 3] = [(0, 0); 3];
pub static mut POLL_NFDS: u64 = 0;
pub static mut POLL_TIMEOUT: i32 = 0;
pub static mut POLL_REVENTS: [i16; 3] = [0; 3];
pub unsafe fn poll(fds: *mut libc::pollfd, nfds: libc::nfds_t, timeout: libc::c_int) -> libc::c_int {
    POLL_CALLS += 1;
    POLL_NFDS = nfds as u64;
    POLL_TIMEOUT = timeout;
    if kani::any() { return fail(); }
    let mut cnt = 0;
    let mut i = 0;
    while i < 3 && (i as u64) < nfds as u64 {
        let p = fds.add(i);
        POLL_SEEN[i] = ((*p).fd, (*p).events);
        (*p).revents = POLL_REVENTS[i];
        if POLL_REVENTS[i] != 0 { cnt += 1; }
        i += 1;
    }
    cnt
}

// ------------------------------------------------------------------ exec
pub static mut EXEC_CALLS: u32 = 0;
pub static mut EXEC_KIND: u8 = 0; // 1 execv, 2 execve
pub static mut EXEC_PATH: *const libc::c_char = core::ptr::null();
pub static mut EXEC_ARGV: *const *const libc::c_char = core::ptr::null();
pub static mut EXEC_ENVP: *const *const libc::c_char = core::ptr::null();
pub unsafe fn execv(path: *const libc::c_char, argv: *const *const libc::c_char) -> libc::c_int {
    EXEC_CALLS += 1; EXEC_KIND = 1; EXEC_PATH = path; EXEC_ARGV = argv; EXEC_ENVP = core::ptr::null();
    log_attempt(path);
    fail() // returning at all means failure
}
pub unsafe fn execve(path: *const libc::c_char, argv: *const *const libc::c_char, envp: *const *const libc::c_char) -> libc::c_int {
    EXEC_CALLS += 1; EXEC_KIND = 2; EXEC_PATH = path; EXEC_ARGV = argv; EXEC_ENVP = envp;
    log_attempt(path);
    fail()
}
pub static mut EXIT_STATUS: i32 = -1;
pub unsafe fn _exit(status: libc::c_int) -> ! {
    EXIT_STATUS = status;
    kani::assume(false); // the process ends here
    loop {}
}

// ------------------------------------------------------------------ exec attempts log (bounded harnesses)
pub const MAX_ATTEMPTS: usize = 4;
pub const MAX_EXE: usize = 8;
pub static mut ATTEMPTS: usize = 0;
pub static mut ATTEMPT_BYTES: [[u8; MAX_EXE]; MAX_ATTEMPTS] = [[0xff; MAX_EXE]; MAX_ATTEMPTS];
pub static mut ATTEMPT_PTR: [usize; MAX_ATTEMPTS] = [0; MAX_ATTEMPTS];
pub unsafe fn log_attempt(path: *const libc::c_char) {
    if ATTEMPTS < MAX_ATTEMPTS {
        ATTEMPT_PTR[ATTEMPTS] = path as usize;
        let mut i = 0;
        while i < MAX_EXE {
            let b = *path.add(i) as u8;
            ATTEMPT_BYTES[ATTEMPTS][i] = b;
            if b == 0 { break; }
            i += 1;
        }
    }
    ATTEMPTS += 1;
}
