// W-harnesses: contracts of the src/posix.rs wrappers that the Verus units assume.  Child module of `posix`
// (sees its private items).  Loop-free over full-domain symbolic inputs => complete proofs, not bounded ones.
#![allow(static_mut_refs)]
use super::*;
use crate::os_common::ExitStatus;
use crate::verif_kani::common::*;
use crate::verif_kani::libc_model as m;

// ---- C09: every 32-bit status word decodes per the POSIX/Linux encoding; never both exit code and signal
#[kani::proof]
fn w_decode_exit_status() {
    let s: i32 = kani::any();
    let low = s & 0x7f;
    let d = decode_exit_status(s);
    if low == 0 {
        // exited: code is bits 8..15
        assert!(d == ExitStatus::Exited(((s >> 8) & 0xff) as u32));
    } else if low != 0x7f {
        // killed by signal `low` (1..=126); bit 7 is the core-dump flag
        assert!(d == ExitStatus::Signaled(low as u8));
        assert!(low >= 1 && low <= 126);
    } else {
        assert!(d == ExitStatus::Other(s)); // stopped/continued words are not termination
    }
    match d {
        ExitStatus::Exited(c) => { assert!(c <= 255); }
        ExitStatus::Signaled(g) => { assert!(g >= 1 && g <= 127); }
        _ => {}
    }
    kani::cover!(matches!(d, ExitStatus::Exited(3)));
    kani::cover!(matches!(d, ExitStatus::Signaled(9)));
}

// ---- C09: waitpid wrapper = one waitpid(pid, &status, flags); result mapping; ECHILD surfaced
#[kani::proof]
#[kani::stub(crate::posix::check_err, model_check_err)]
fn w_waitpid() {
    let pid: u32 = kani::any();
    kani::assume(pid > 0 && pid <= i32::MAX as u32);
    let block: bool = kani::any();
    unsafe {
        m::CHILD_PID = pid as i32;
        m::CHILD_STATE = kani::any();
        kani::assume(m::CHILD_STATE <= 2);
        m::CHILD_STATUS = kani::any();
        m::WAITPID_CALLS = 0;
    }
    let st0 = unsafe { m::CHILD_STATE };
    let r = waitpid(pid, if block { 0 } else { WNOHANG });
    unsafe {
        assert!(m::WAITPID_CALLS == 1 && m::LAST_WAIT == (pid as i32, if block { 0 } else { libc::WNOHANG }));
        match r {
            Err(ref e) => {
                assert!(st0 == 2);
                assert!(e.raw_os_error() == Some(libc::ECHILD));
            }
            Ok((p, status)) => {
                if p == 0 {
                    assert!(st0 == 0 && !block); // "still running" only without blocking
                } else {
                    assert!(p == pid && st0 != 2 && m::CHILD_STATE == 2);
                    assert!(status == decode_exit_status(m::CHILD_STATUS));
                }
            }
        }
    }
    kani::cover!(matches!(r, Ok((0, _))));
    kani::cover!(r.is_err());
}

// ---- C10: kill wrapper passes (pid, signal) unchanged, exactly once
#[kani::proof]
#[kani::stub(crate::posix::check_err, model_check_err)]
fn w_kill() {
    let pid: u32 = kani::any();
    kani::assume(pid <= i32::MAX as u32);
    let sig: i32 = kani::any();
    unsafe { m::KILL_CALLS = 0; }
    let r = kill(pid, sig);
    unsafe {
        assert!(m::KILL_CALLS == 1 && m::LAST_KILL == (pid as i32, sig));
        if let Err(e) = &r { assert!(e.raw_os_error() == Some(m::ERRNO)); }
    }
    assert!(SIGTERM == libc::SIGTERM && SIGKILL == libc::SIGKILL && ECHILD == libc::ECHILD && WNOHANG == libc::WNOHANG);
    kani::cover!(r.is_ok());
    kani::cover!(r.is_err());
}

// ---- C18: reset_sigpipe leaves an empty signal mask and SIGPIPE at its default, or reports the error
#[kani::proof]
#[kani::stub(crate::posix::check_err, model_check_err)]
fn w_reset_sigpipe() {
    unsafe {
        m::MASK_EMPTY = kani::any();       // whatever the spawning thread had blocked
        m::SIGPIPE_DEFAULT = false;        // whatever the parent had for SIGPIPE (the model's signal() returns any previous disposition)
    }
    let r = reset_sigpipe();
    unsafe {
        if r.is_ok() {
            assert!(m::MASK_EMPTY && m::SIGPIPE_DEFAULT);
        }
    }
    kani::cover!(r.is_ok());
    kani::cover!(r.is_err());
}

// ---- C01/C04 (R6 seam): PollFd is laid out as libc::pollfd; poll() hands the array, its length and the millisecond
// timeout to libc::poll, and test() reads the revents the kernel wrote.  Timeouts <= i32::MAX ms (first loop iteration).
#[kani::proof]
#[kani::stub(crate::posix::check_err, model_check_err)]
#[kani::stub(<std::os::fd::OwnedFd as std::ops::Drop>::drop, model_ownedfd_drop)]
#[kani::stub(std::time::Instant::now, model_now)]
#[kani::unwind(4)]
fn w_poll_passthrough() {
    use std::os::unix::io::FromRawFd;
    let f0 = unsafe { File::from_raw_fd(3) };
    let f2 = unsafe { File::from_raw_fd(5) };
    let e: [i16; 3] = kani::any();
    let mut fds = [PollFd::new(Some(&f0), e[0]), PollFd::new(None, e[1]), PollFd::new(Some(&f2), e[2])];
    let ms: u32 = kani::any();
    kani::assume(ms <= i32::MAX as u32);
    let sub_ms_ns: u32 = kani::any();
    kani::assume(sub_ms_ns < 1_000_000);
    let with_timeout: bool = kani::any();
    let timeout = if with_timeout { Some(Duration::from_millis(ms as u64) + Duration::from_nanos(sub_ms_ns as u64)) } else { None };
    unsafe {
        m::POLL_CALLS = 0;
        m::POLL_REVENTS = kani::any();
    }
    let r = poll(&mut fds, timeout);
    unsafe {
        assert!(m::POLL_CALLS == 1 && m::POLL_NFDS == 3);
        assert!(m::POLL_TIMEOUT == if with_timeout { ms as i32 } else { -1 });
        if let Ok(cnt) = r {
            assert!(m::POLL_SEEN[0] == (3, e[0]) && m::POLL_SEEN[1] == (-1, e[1]) && m::POLL_SEEN[2] == (5, e[2]));
            let m: i16 = kani::any();
            assert!(fds[0].test(m) == (m::POLL_REVENTS[0] & m != 0));
            assert!(fds[2].test(m) == (m::POLL_REVENTS[2] & m != 0));
            let nz = (m::POLL_REVENTS[0] != 0) as usize + (m::POLL_REVENTS[1] != 0) as usize + (m::POLL_REVENTS[2] != 0) as usize;
            assert!(cnt == nz);
        }
    }
    assert!(POLLIN == libc::POLLIN && POLLOUT == libc::POLLOUT && POLLHUP == libc::POLLHUP);
    kani::cover!(r.is_ok());
    std::mem::forget(f0);
    std::mem::forget(f2);
}

// ---- C05/C08: dup2 / pipe wrappers pass their arguments through and surface errno
#[kani::proof]
#[kani::stub(crate::posix::check_err, model_check_err)]
fn w_dup2() {
    let fd: i32 = kani::any();
    kani::assume(fd >= 0 && (fd as usize) < m::NFD);
    unsafe { m::OPEN[fd as usize] = true; m::DUP2_CALLS = 0; }
    let newfd: i32 = kani::any();
    let r3 = dup2(fd, newfd);
    unsafe {
        assert!(m::DUP2_CALLS == 1 && m::LAST_DUP2 == (fd, newfd));
        if r3.is_ok() { assert!(m::OPEN[newfd as usize] && m::OBJ[newfd as usize] == m::OBJ[fd as usize]); }
    }
    assert!(F_GETFD == libc::F_GETFD && F_SETFD == libc::F_SETFD && FD_CLOEXEC == libc::FD_CLOEXEC);
    kani::cover!(r3.is_ok());
    kani::cover!(r3.is_err());
}

#[kani::proof]
#[kani::stub(crate::posix::check_err, model_check_err)]
#[kani::stub(<std::os::fd::OwnedFd as std::ops::Drop>::drop, model_ownedfd_drop)]
fn w_pipe() {
    unsafe {
        m::OPEN = kani::any();
        m::PIPE_CALLS = 0;
        m::CLOSE_CALLS = 0;
    }
    let before = unsafe { m::OPEN };
    let r = pipe();
    unsafe {
        use std::os::unix::io::AsRawFd;
        assert!(m::PIPE_CALLS == 1);
        match &r {
            Ok((rd, wr)) => {
                let (a, b) = (rd.as_raw_fd() as usize, wr.as_raw_fd() as usize);
                assert!(a != b && !before[a] && !before[b] && m::OPEN[a] && m::OPEN[b]);
                assert!(m::OBJ[b] == m::OBJ[a] + 1);          // the two ends of one new pipe, read end first
                // C08: both ends are BORN close-on-exec (pipe2): no window in which a child forked by another thread inherits them
                assert!(m::CLOEXEC[a] && m::CLOEXEC[b]);
            }
            Err(_) => {
                let mut i = 0;
                while i < m::NFD { assert!(m::OPEN[i] == before[i]); i += 1; }   // nothing leaked on failure
            }
        }
        assert!(m::CLOSE_CALLS == 0);
    }
    kani::cover!(r.is_ok());
    kani::cover!(r.is_err());
    std::mem::forget(r);
}

// ---- C06/C07: fork / setuid / setgid / setpgid pass-through
#[kani::proof]
#[kani::stub(crate::posix::check_err, model_check_err)]
fn w_fork_ids() {
    unsafe { m::FORK_CALLS = 0; m::LAST_SETUID = (0, 0); m::LAST_SETGID = (0, 0); m::LAST_SETPGID = (0, 0, 0); m::OTHER_ID_CALLS = 0; }
    let r = unsafe { fork() };
    unsafe {
        assert!(m::FORK_CALLS == 1);
        match r {
            Ok(None) => { assert!(m::FORK_RESULT == 0); }
            Ok(Some(p)) => { assert!(m::FORK_RESULT > 0 && p == m::FORK_RESULT as u32); }
            Err(ref e) => { assert!(m::FORK_RESULT < 0 && e.raw_os_error() == Some(m::ERRNO)); }
        }
    }
    let (u, g): (u32, u32) = (kani::any(), kani::any());
    let ru = setuid(u);
    let rg = setgid(g);
    let (p, pg): (u32, u32) = (kani::any(), kani::any());
    kani::assume(p <= i32::MAX as u32 && pg <= i32::MAX as u32);
    let rp = setpgid(p, pg);
    unsafe {
        assert!(m::LAST_SETUID == (1, u) && m::LAST_SETGID == (1, g) && m::LAST_SETPGID == (1, p as i32, pg as i32));
        // the whole identity is changed (setuid/setgid as root set real, effective and saved ids): no partial variant is used
        assert!(m::OTHER_ID_CALLS == 0);
    }
    kani::cover!(ru.is_ok() && rg.is_err() && rp.is_ok());
}

// ---- C17/C06: posix::chdir is exactly one chdir(2) on the prepared C string: nothing else (in particular no std path handling, which
// allocates for long paths) happens between fork and exec
#[kani::proof]
#[kani::stub(crate::posix::check_err, model_check_err)]
fn w_chdir() {
    let bytes = [b'/', b't', 0u8];
    let c = std::ffi::CStr::from_bytes_with_nul(&bytes).unwrap();
    unsafe { m::CHDIR_CALLS = 0; }
    let r = chdir(c);
    unsafe {
        assert!(m::CHDIR_CALLS == 1 && m::CHDIR_ARG == c.as_ptr());
        if let Err(e) = &r { assert!(e.raw_os_error() == Some(m::ERRNO)); }
    }
    kani::cover!(r.is_ok());
    kani::cover!(r.is_err());
}

// ---- C05: the handle for an inherited standard stream never closes descriptor 0/1/2
#[kani::proof]
#[kani::stub(<std::os::fd::OwnedFd as std::ops::Drop>::drop, model_ownedfd_drop)]
fn w_make_standard_stream() {
    use crate::os_common::StandardStream;
    use std::os::unix::io::AsRawFd;
    let which = match kani::any::<u8>() % 3 { 0 => StandardStream::Input, 1 => StandardStream::Output, _ => StandardStream::Error };
    let want = which as i32;
    unsafe { m::CLOSE_CALLS = 0; }
    let s = make_standard_stream(which).unwrap();
    assert!(s.as_raw_fd() == want && want >= 0 && want <= 2);
    assert!(Rc::strong_count(&s) >= 2);      // one reference is leaked on purpose
    let s2 = Rc::clone(&s);
    drop(s);
    drop(s2);                                 // every handle the caller can reach is gone ...
    unsafe { assert!(m::CLOSE_CALLS == 0); }     // ... and the descriptor was not closed
}

// ---- C06: NUL bytes are rejected with EINVAL, everything else is copied verbatim
#[kani::proof]
#[kani::unwind(6)]
fn w_os_to_cstring_b4() {
    let bytes: [u8; 4] = kani::any();
    let len: usize = kani::any();
    kani::assume(len <= 4);
    let s = OsStr::from_bytes(&bytes[..len]);
    let has_nul = bytes[..len].iter().any(|&b| b == 0);
    match os_to_cstring(s) {
        Ok(c) => {
            assert!(!has_nul);
            assert!(c.as_bytes() == &bytes[..len]);
        }
        Err(e) => {
            assert!(has_nul);
            assert!(e.raw_os_error() == Some(libc::EINVAL));
        }
    }
}

// =========================================================================================== bounded stand-ins (labelled, never counted as proved)
const PN: usize = 3;

// ---- C15 (bounded: PATH of exactly 3 bytes over {':','a','b'}): split_path yields the maximal colon-free runs, non-empty, in order, complete
#[kani::proof]
#[kani::unwind(5)]
fn b_split_path_b3() {
    let bytes: [u8; PN] = kani::any();
    let mut i = 0;
    while i < PN { kani::assume(bytes[i] == b':' || bytes[i] == b'a' || bytes[i] == b'b'); i += 1; }
    let path = OsStr::from_bytes(&bytes);
    let mut it = split_path(path);
    let mut flat = [0u8; PN]; let mut nflat = 0; let mut runs = 0;
    i = 0;
    while i < PN { if bytes[i] != b':' { flat[nflat] = bytes[i]; nflat += 1; if i == 0 || bytes[i - 1] == b':' { runs += 1; } } i += 1; }
    let mut got = [0u8; PN]; let mut ngot = 0; let mut pieces = 0;
    let mut k = 0;
    while k < PN + 1 {
        match it.next() {
            None => break,
            Some(p) => {
                let pb = p.as_bytes();
                assert!(pb.len() > 0 && pb.len() <= PN - ngot);
                let mut j = 0;
                while j < pb.len() { assert!(pb[j] != b':'); got[ngot] = pb[j]; ngot += 1; j += 1; }
                pieces += 1;
            }
        }
        k += 1;
    }
    assert!(it.next().is_none());
    assert!(pieces == runs && ngot == nflat);
    i = 0;
    while i < PN { assert!(got[i] == flat[i]); i += 1; }
}

// ---- C15/C17/C07 (bounded: command "x", PATH of exactly 3 bytes over {':','a'}): PrepExec::exec tries "<dir>/x\0" for every non-empty
// entry in order, in the SAME preallocated buffer (no reallocation), and -- exec never succeeding in the model -- returns Err on every path
#[kani::proof]
#[kani::stub(crate::posix::check_err, model_check_err)]
#[kani::unwind(6)]
fn b_exec_path_b3() {
    let bytes: [u8; PN] = kani::any();
    let mut i = 0;
    while i < PN { kani::assume(bytes[i] == b':' || bytes[i] == b'a'); i += 1; }
    let search = OsStr::from_bytes(&bytes).to_owned();
    let argvec = CVec::new(&["x"]).unwrap();
    let prep = PrepExec::new(OsString::from("x"), argvec, None, Some(search));
    let cap0 = prep.prealloc_exe.capacity();
    unsafe { m::ATTEMPTS = 0; m::EXEC_CALLS = 0; }
    let r = prep.exec();
    // expected attempts: one per maximal run of 'a'
    let mut runs = 0; let mut run_len = [0usize; 2];
    i = 0;
    while i < PN { if bytes[i] != b':' { if i == 0 || bytes[i - 1] == b':' { runs += 1; } run_len[runs - 1] += 1; } i += 1; }
    unsafe {
        assert!(m::ATTEMPTS == runs && m::EXEC_KIND != 2);
        assert!(cap0 >= PN + 3);
        let mut a = 0;
        while a < runs {
            let n = run_len[a];
            let mut j = 0;
            while j < n { assert!(m::ATTEMPT_BYTES[a][j] == b'a'); j += 1; }
            assert!(m::ATTEMPT_BYTES[a][n] == b'/' && m::ATTEMPT_BYTES[a][n + 1] == b'x' && m::ATTEMPT_BYTES[a][n + 2] == 0);
            assert!(m::ATTEMPT_PTR[a] == m::ATTEMPT_PTR[0]);     // same buffer every time: nothing was reallocated
            a += 1;
        }
    }
    assert!(r.is_err());      // a failed lookup is an error, never "Ok" (nothing was executed)
}

// ---- C06 (bounded: 2 strings of at most 2 bytes): CVec::new builds a NULL-terminated table whose i-th pointer points at the bytes of
// the i-th string followed by NUL; libc_exec hands exactly these tables to execv / execve (execve iff an environment was given)
#[kani::proof]
#[kani::stub(crate::posix::check_err, model_check_err)]
#[kani::unwind(5)]
fn b_cvec_exec_b2() {
    let a: [u8; 2] = kani::any();
    let b: [u8; 2] = kani::any();
    let (la, lb): (usize, usize) = (kani::any(), kani::any());
    kani::assume(la <= 2 && lb <= 2);
    let mut i = 0;
    while i < 2 { kani::assume(a[i] != 0 && b[i] != 0); i += 1; }
    let sa = OsStr::from_bytes(&a[..la]);
    let sb = OsStr::from_bytes(&b[..lb]);
    let v = CVec::new(&[sa, sb]).unwrap();
    let t = v.as_c_vec();
    unsafe {
        assert!(!(*t).is_null() && !(*t.add(1)).is_null() && (*t.add(2)).is_null());
        let p0 = *t as *const u8;
        let p1 = *t.add(1) as *const u8;
        let mut k = 0;
        while k < la { assert!(*p0.add(k) == a[k]); k += 1; }
        assert!(*p0.add(la) == 0);
        k = 0;
        while k < lb { assert!(*p1.add(k) == b[k]); k += 1; }
        assert!(*p1.add(lb) == 0);
    }
    let with_env: bool = kani::any();
    let envvec = if with_env { Some(CVec::new(&[sb]).unwrap()) } else { None };
    let envp = envvec.as_ref().map(|e| e.as_c_vec());
    let prep = PrepExec { cmd: OsString::from("x"), argvec: v, envvec, search_path: None, prealloc_exe: Vec::new() };
    unsafe { m::EXEC_CALLS = 0; }
    let exe = [b'x', 0u8];
    let r = prep.libc_exec(&exe);
    unsafe {
        assert!(r.is_err() && m::EXEC_CALLS == 1);
        assert!(m::EXEC_PATH as *const u8 == exe.as_ptr() && m::EXEC_ARGV == t);
        assert!(m::EXEC_KIND == if with_env { 2 } else { 1 });
        if with_env { assert!(m::EXEC_ENVP == envp.unwrap()); }
    }
}
