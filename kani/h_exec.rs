// Refusal harnesses for the set-once stream settings of Exec (C16: "a second, different setting ... is refused loudly rather than silently
// overriding or dropping it").  The Verus unit proves what the accepted cases do; these harnesses prove the other direction on the
// real methods: for EVERY combination outside the accepted ones the call does not return.  #[kani::should_panic] makes the panic the
// expected outcome; the cover mark after the call must be UNSATISFIABLE (driver: harness names starting with r_).
#![allow(static_mut_refs)]
use super::*;
use crate::verif_kani::common::*;
use std::os::unix::io::FromRawFd;

#[derive(Clone, Copy, PartialEq, Eq)]
enum K { None, Pipe, Merge, File, RcFile }
fn any_kind() -> K {
    match kani::any::<u8>() % 5 { 0 => K::None, 1 => K::Pipe, 2 => K::Merge, 3 => K::File, _ => K::RcFile }
}
fn redir(k: K, fd: i32) -> Redirection {
    match k {
        K::None => Redirection::None,
        K::Pipe => Redirection::Pipe,
        K::Merge => Redirection::Merge,
        K::File => Redirection::File(unsafe { File::from_raw_fd(fd) }),
        K::RcFile => Redirection::RcFile(std::rc::Rc::new(unsafe { File::from_raw_fd(fd) })),
    }
}
fn exec_with(stdin: K, stdout: K, stderr: K, data: bool) -> Exec {
    Exec {
        command: OsString::new(),
        args: Vec::new(),
        config: PopenConfig { stdin: redir(stdin, 3), stdout: redir(stdout, 4), stderr: redir(stderr, 5), ..Default::default() },
        stdin_data: if data { Some(Vec::new()) } else { None },
    }
}

// stdin: accepted = (None, anything but Merge) | (Pipe, Pipe) | (None, data)
#[kani::proof]
#[kani::should_panic]
#[kani::stub(<std::os::fd::OwnedFd as std::ops::Drop>::drop, model_ownedfd_drop)]
fn r_exec_stdin_refuses() {
    let cur = any_kind();
    let new_is_data: bool = kani::any();
    let new = any_kind();
    let accepted = if new_is_data { cur == K::None } else { (cur == K::None && new != K::Merge) || (cur == K::Pipe && new == K::Pipe) };
    kani::assume(!accepted);
    let e = exec_with(cur, K::None, K::None, cur == K::Pipe && kani::any());
    let e2 = if new_is_data { e.stdin(Vec::<u8>::new()) } else { e.stdin(redir(new, 6)) };
    kani::cover!(true, "a stdin setting outside the accepted cases returned normally");
    std::mem::forget(e2);
}
// stdout / stderr: accepted = (None, anything) | (Pipe, Pipe)
#[kani::proof]
#[kani::should_panic]
#[kani::stub(<std::os::fd::OwnedFd as std::ops::Drop>::drop, model_ownedfd_drop)]
fn r_exec_stdout_refuses() {
    let cur = any_kind();
    let new = any_kind();
    kani::assume(!(cur == K::None || (cur == K::Pipe && new == K::Pipe)));
    let e = exec_with(K::None, cur, K::None, false);
    let e2 = e.stdout(redir(new, 6));
    kani::cover!(true, "a stdout setting outside the accepted cases returned normally");
    std::mem::forget(e2);
}
#[kani::proof]
#[kani::should_panic]
#[kani::stub(<std::os::fd::OwnedFd as std::ops::Drop>::drop, model_ownedfd_drop)]
fn r_exec_stderr_refuses() {
    let cur = any_kind();
    let new = any_kind();
    kani::assume(!(cur == K::None || (cur == K::Pipe && new == K::Pipe)));
    let e = exec_with(K::None, K::None, cur, false);
    let e2 = e.stderr(redir(new, 6));
    kani::cover!(true, "a stderr setting outside the accepted cases returned normally");
    std::mem::forget(e2);
}
// terminators that cannot deliver input data refuse it
#[kani::proof]
#[kani::should_panic]
#[kani::stub(<std::os::fd::OwnedFd as std::ops::Drop>::drop, model_ownedfd_drop)]
fn r_exec_terminators_refuse_data() {
    let e = exec_with(K::Pipe, K::None, K::None, true);
    match kani::any::<u8>() % 5 {
        0 => { let _ = e.check_no_stdin_data("popen"); }
        1 => { let _ = e.check_no_stdin_data("join"); }
        2 => { let _ = e.check_no_stdin_data("stream_stdout"); }
        3 => { let _ = e.check_no_stdin_data("stream_stderr"); }
        _ => { let _ = e.check_no_stdin_data("stream_stdin"); }
    }
    kani::cover!(true, "check_no_stdin_data returned although input data is pending");
}
// the accepted cases do return (vacuity guard for the harnesses above) and keep the first setting
#[kani::proof]
#[kani::stub(<std::os::fd::OwnedFd as std::ops::Drop>::drop, model_ownedfd_drop)]
fn w_exec_stdin_accepts() {
    let e = exec_with(K::None, K::None, K::None, false).stdin(Redirection::Pipe).stdin(Redirection::Pipe);
    assert!(matches!(e.config.stdin, Redirection::Pipe) && e.stdin_data.is_none());
    let e = exec_with(K::None, K::None, K::None, false).stdin(Vec::<u8>::new());
    assert!(matches!(e.config.stdin, Redirection::Pipe) && e.stdin_data.is_some());
    kani::cover!(true);
    std::mem::forget(e);
}
