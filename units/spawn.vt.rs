//@unit spawn
//@include models/spawn.rs
//@thread posix::pipe posix::fork posix::_exit posix::reset_sigpipe posix::setuid posix::setgid posix::setpgid posix::prep_exec:ro posix::os_to_cstring:ro posix::chdir dup2_file .write_all .read .call .os_wait .waitpid set_inheritable make_pipe drop_file format_env_opt:ro os::make_pipe os::set_inheritable .setup_streams .os_start Popen::do_exec prepare_pipe prepare_file prepare_rc_file .drop_impl

//@source src/popen.rs
use std::result;
//@enum PopenError
impl vstd::std_specs::convert::FromSpecImpl<io::Error> for PopenError {
    open spec fn obeys_from_spec() -> bool { true }
    open spec fn from_spec(v: io::Error) -> Self { PopenError::IoError(v) }
}
impl From<io::Error> for PopenError {
//@fn impl(From<io::Error>+for+PopenError)::from
//@end
}
//@item Result
pub mod os_t {
//@item os[unix]::ExtChildState
}
//@enum ChildState
use ChildState::*;
//@struct Popen pubfields
//@enum Redirection
//@struct PopenConfig
//@include models/spawn_shims2.rs

// ---------------------------------------------------------------- C05: what "wired as requested" means
pub open spec fn cobj(c: Option<Rc<File>>) -> Option<int> { match c { Some(f) => Some(f.obj@), None => None } }
// the open file an output stream of the child ends up on
pub open spec fn effective(c: Option<Rc<File>>, which: StandardStream) -> int { match c { Some(f) => f.obj@, None => std_obj(which) } }
pub open spec fn wired(r: Redirection, parent: Option<File>, child: Option<Rc<File>>, parent_writes: bool, which: StandardStream) -> bool {
    match r {
        Redirection::None => parent.is_none() && effective(child, which) == std_obj(which),   // inherited: the parent's own stream
        Redirection::Pipe => parent.is_some() && child.is_some() && peer(parent.unwrap().obj@) == child.unwrap().obj@
                              && is_read_end(child.unwrap().obj@) == parent_writes && lib_created(child.unwrap().obj@) && lib_created(parent.unwrap().obj@),
        Redirection::File(f) => parent.is_none() && cobj(child) == Some(f.obj@),
        Redirection::RcFile(f) => parent.is_none() && cobj(child) == Some(f.obj@),
        Redirection::Merge => true,
    }
}
// caller-supplied files are not library pipes and do not sit on descriptors 0..2 (assumption on the caller, see DESIGN)
pub open spec fn user_file_ok(r: Redirection) -> bool {
    match r { Redirection::File(f) => !lib_created(f.obj@) && f.fd >= 3, Redirection::RcFile(f) => !lib_created(f.obj@) && f.fd >= 3, _ => true }
}
// where the child ends may sit: on descriptors >= 3, or they ARE the parent's own output streams (merge onto an inherited stream)
pub open spec fn is_std(f: Rc<File>, k: int, which: StandardStream) -> bool { f.fd == k && f.obj@ == std_obj(which) && !lib_created(f.obj@) }
pub open spec fn ends_ok(e: (Option<Rc<File>>, Option<Rc<File>>, Option<Rc<File>>)) -> bool {
    &&& (e.0.is_some() ==> e.0.unwrap().fd >= 3)
    &&& (e.1.is_some() ==> e.1.unwrap().fd >= 3 || is_std(e.1.unwrap(), 1, StandardStream::Output) || is_std(e.1.unwrap(), 2, StandardStream::Error))
    &&& (e.2.is_some() ==> e.2.unwrap().fd >= 3 || is_std(e.2.unwrap(), 2, StandardStream::Error) || (is_std(e.2.unwrap(), 1, StandardStream::Output) && e.1 == e.2))
}
// C08: a library-created pipe end may be inheritable at fork time only if it is the child's own end of one of this spawn's pipes
pub open spec fn is_child_end(o: int, ends: (Option<Rc<File>>, Option<Rc<File>>, Option<Rc<File>>)) -> bool {
    cobj(ends.0) == Some(o) || cobj(ends.1) == Some(o) || cobj(ends.2) == Some(o)
}
// the two ghost sets only ever hold library-created pipe ends
pub open spec fn lib_only(w: SW) -> bool { forall|o: int| #![trigger w.inheritable.contains(o)] #![trigger w.cloexec.contains(o)] (w.inheritable.contains(o) || w.cloexec.contains(o)) ==> lib_created(o) }
pub open spec fn new_end(p: Option<File>, w0: SW) -> bool { p.is_some() ==> !w0.cloexec.contains(p.unwrap().obj@) && !w0.inheritable.contains(p.unwrap().obj@) }
// the child's end of a pipe whose parent end the Popen holds
pub open spec fn is_pipe_child_end(o: int, p: Popen) -> bool {
    (p.stdin.is_some() && o == peer(p.stdin.unwrap().obj@)) || (p.stdout.is_some() && o == peer(p.stdout.unwrap().obj@)) || (p.stderr.is_some() && o == peer(p.stderr.unwrap().obj@))
}
pub open spec fn parent_end_cloexec(p: Option<File>, w: SW) -> bool { p.is_some() ==> w.cloexec.contains(p.unwrap().obj@) && !w.inheritable.contains(p.unwrap().obj@) }
// the child's descriptor n refers to the open file of the child end (or is inherited when there is none)
pub open spec fn fd_matches(cur: Option<int>, end: Option<Rc<File>>, which: StandardStream) -> bool {
    match end { Some(f) => (match cur { Some(o) => o == f.obj@, None => f.obj@ == std_obj(which) }), None => cur.is_none() }
}

pub mod os_fns {
use vstd::prelude::*;
use super::*;
use super::posix::fcntl_set_cloexec;
//@fn os[unix]::set_inheritable world=mut
//@rreplace 1 /let fd = f\.as_raw_fd\(\);\s*let old = posix::fcntl\(fd, posix::F_GETFD, None\)\?;\s*posix::fcntl\(fd, posix::F_SETFD, Some\(old \| posix::FD_CLOEXEC\)\)\?;/ => /fcntl_set_cloexec(f, Tracked(w))?;/
    requires !old(w).s.in_child,
    ensures
        // R6: the F_GETFD / F_SETFD(old | FD_CLOEXEC) pair is the shim fcntl_set_cloexec (Kani: w_set_inheritable)
        r is Ok && !inheritable && lib_created(f.obj@) ==> final(w).s == (SW { inheritable: old(w).s.inheritable.remove(f.obj@), cloexec: old(w).s.cloexec.insert(f.obj@), ..old(w).s }),
        r is Ok && (inheritable || !lib_created(f.obj@)) ==> final(w).s == old(w).s,
        r is Err ==> final(w).s == old(w).s,
//@end
//@fn os[unix]::make_pipe world=mut
    requires !old(w).s.in_child,
    ensures match r {
        Ok((rd, wr)) => {
            &&& peer(rd.obj@) == wr.obj@ && peer(wr.obj@) == rd.obj@ && is_read_end(rd.obj@) && !is_read_end(wr.obj@) && rd.obj@ != wr.obj@
            &&& lib_created(rd.obj@) && lib_created(wr.obj@) && rd.fd >= 3 && wr.fd >= 3
            &&& !old(w).s.inheritable.contains(rd.obj@) && !old(w).s.cloexec.contains(rd.obj@) && !old(w).s.inheritable.contains(wr.obj@) && !old(w).s.cloexec.contains(wr.obj@)
            &&& final(w).s == (SW { cloexec: old(w).s.cloexec.insert(rd.obj@).insert(wr.obj@), ..old(w).s })
        },
        Err(e) => final(w).s == old(w).s,
    }
//@end
}
pub use os_fns::{set_inheritable, make_pipe};
pub mod os { pub use super::os_t::*; pub use super::os_fns::*; }

broadcast use le::lemma_le_roundtrip;
impl Popen {
//@fn Popen::setup_streams world=mut ret=res
    requires old(self).stdin.is_none(), old(self).stdout.is_none(), old(self).stderr.is_none(), !old(w).s.in_child,
        user_file_ok(stdin), user_file_ok(stdout), user_file_ok(stderr), lib_only(old(w).s),
    ensures
        lib_only(final(w).s),
        forall|o: int| #![trigger final(w).s.inheritable.contains(o)] #![trigger old(w).s.inheritable.contains(o)] final(w).s.inheritable.contains(o) ==> old(w).s.inheritable.contains(o), //[C08]
        // invalid combinations are refused with a logic error
        stdin is Merge ==> res is Err, //[C05]
        stdout is Merge && stderr is Merge ==> res is Err, //[C05]
        final(w).s.forks == old(w).s.forks && !final(w).s.in_child && final(w).s.child_unreaped == old(w).s.child_unreaped && final(w).s.launch == old(w).s.launch,
        final(w).s.want == old(w).s.want && final(w).s.status_read_failed == old(w).s.status_read_failed,
        final(self).child_state == old(self).child_state && final(self).detached == old(self).detached,
        res is Ok ==> {
            let (cin, cout, cerr) = res->Ok_0;
            &&& wired(stdin, final(self).stdin, cin, true, StandardStream::Input) //[C05,C13]
            &&& wired(stdout, final(self).stdout, cout, false, StandardStream::Output) //[C05,C13]
            &&& wired(stderr, final(self).stderr, cerr, false, StandardStream::Error) //[C05,C13]
            // merge: the merged stream is the very same open file as the other output stream, whatever that is
            &&& (stderr is Merge ==> final(self).stderr.is_none() && cerr.is_some() && cerr.unwrap().obj@ == effective(cout, StandardStream::Output)
                    && (stdout is None ==> cout.is_some() && cout.unwrap().obj@ == std_obj(StandardStream::Output))) //[C05]
            &&& (stdout is Merge ==> final(self).stdout.is_none() && cout.is_some() && cout.unwrap().obj@ == effective(cerr, StandardStream::Error)
                    && (stderr is None ==> cerr.is_some() && cerr.unwrap().obj@ == std_obj(StandardStream::Error))) //[C05]
            &&& ends_ok(res->Ok_0)
            // C08: the parent's ends are close-on-exec; the only new inheritable library pipe ends are the child's own ends
            &&& parent_end_cloexec(final(self).stdin, final(w).s) && parent_end_cloexec(final(self).stdout, final(w).s) && parent_end_cloexec(final(self).stderr, final(w).s) //[C08]
            &&& (forall|o: int| #![trigger final(w).s.inheritable.contains(o)] #![trigger old(w).s.inheritable.contains(o)] final(w).s.inheritable.contains(o) ==> old(w).s.inheritable.contains(o)) //[C08]
            &&& (forall|o: int| #![trigger final(w).s.cloexec.contains(o)] #![trigger old(w).s.cloexec.contains(o)] old(w).s.cloexec.contains(o) ==> final(w).s.cloexec.contains(o))
            &&& (forall|o: int| #![trigger final(w).s.inheritable.contains(o)] #![trigger old(w).s.inheritable.contains(o)] old(w).s.inheritable.contains(o) ==> final(w).s.inheritable.contains(o))
            // the new parent ends are new: they were not in the table before
            &&& new_end(final(self).stdin, old(w).s) && new_end(final(self).stdout, old(w).s) && new_end(final(self).stderr, old(w).s)
        },
//@nested prepare_pipe world=mut
        requires !old(w).s.in_child,
        ensures
            lib_only(old(w).s) ==> lib_only(final(w).s),
            forall|o: int| #![trigger final(w).s.inheritable.contains(o)] #![trigger old(w).s.inheritable.contains(o)] final(w).s.inheritable.contains(o) ==> old(w).s.inheritable.contains(o),
            final(w).s.want == old(w).s.want && final(w).s.status_read_failed == old(w).s.status_read_failed,
            final(w).s.forks == old(w).s.forks && !final(w).s.in_child && final(w).s.child_unreaped == old(w).s.child_unreaped && final(w).s.launch == old(w).s.launch,
            r is Ok ==> final(parent_ref).is_some() && final(child_ref).is_some()
                    && peer(final(parent_ref).unwrap().obj@) == final(child_ref).unwrap().obj@
                    && is_read_end(final(child_ref).unwrap().obj@) == parent_writes
                    && lib_created(final(child_ref).unwrap().obj@) && lib_created(final(parent_ref).unwrap().obj@) && final(child_ref).unwrap().fd >= 3
                    && final(child_ref).unwrap().obj@ != final(parent_ref).unwrap().obj@
                    && !old(w).s.inheritable.contains(final(child_ref).unwrap().obj@) && !old(w).s.cloexec.contains(final(child_ref).unwrap().obj@)
                    && !old(w).s.inheritable.contains(final(parent_ref).unwrap().obj@) && !old(w).s.cloexec.contains(final(parent_ref).unwrap().obj@)
                    && final(w).s.inheritable == old(w).s.inheritable
                    && final(w).s.cloexec == old(w).s.cloexec.insert(final(parent_ref).unwrap().obj@).insert(final(child_ref).unwrap().obj@),
//@endnested
//@nested prepare_file world=mut
        requires !old(w).s.in_child, !lib_created(file.obj@),
        ensures r is Ok ==> cobj(*final(child_ref)) == Some(file.obj@) && final(child_ref).unwrap().fd == file.fd, final(w).s == old(w).s,
//@endnested
//@nested prepare_rc_file world=mut
        requires !old(w).s.in_child, !lib_created(file.obj@),
        ensures r is Ok ==> cobj(*final(child_ref)) == Some(file.obj@) && final(child_ref).unwrap().fd == file.fd, final(w).s == old(w).s,
//@endnested
//@nested reuse_stream
        ensures r is Ok ==> final(src).is_some() && final(dest).is_some()
                    && final(dest).unwrap() == final(src).unwrap()
                    && final(src).unwrap().obj@ == effective(*old(src), src_id)
                    && (old(src).is_some() ==> *final(src) == *old(src))
                    && (old(src).is_none() ==> final(src).unwrap().fd == src_id as i32 && !lib_created(final(src).unwrap().obj@) && final(src).unwrap().obj@ == std_obj(src_id)),
//@endnested
//@end

//@fn os[unix]::impl(PopenOsImpl+for+Popen)::do_exec world=mut
//@sreplace 1 /just_exec: impl FnOnce\(\) -> io::Result<\(\)>/ => /just_exec: posix::JustExec/
//@rreplace 3 /posix::dup2\((\w+)\.as_raw_fd\(\), (\w+)\)/ => /posix::dup2_file(&\1, \2, Tracked(w))/
//@rreplace 1 /just_exec\(\)\?/ => /just_exec.call(Tracked(w))?/
    requires
        posix::step_pre(*old(w)), old(w).img == img0(),
        ends_ok(child_ends),
        just_exec.req@.cmd == old(w).s.want.cmd && just_exec.req@.argv == old(w).s.want.argv && just_exec.req@.env.is_some() == old(w).s.want.env.is_some(),
    ensures
        r is Err, //[C07]
        final(w).s.in_child, final(w).s.at_fork_cloexec == old(w).s.at_fork_cloexec,
        // the error is the error of the step that failed
        final(w).img.failed == Some(posix::errcode(r->Err_0)), //[C07]
        final(w).img.reported.is_none(),
        // if the exec was attempted, the child image was at that moment exactly what was asked for
        final(w).img.exec_tried.is_some() ==> fd_matches(final(w).img.fd0, child_ends.0, StandardStream::Input), //[C05,C13]
        final(w).img.exec_tried.is_some() ==> fd_matches(final(w).img.fd1, child_ends.1, StandardStream::Output), //[C05,C13]
        final(w).img.exec_tried.is_some() ==> fd_matches(final(w).img.fd2, child_ends.2, StandardStream::Error), //[C05,C13]
        final(w).img.exec_tried.is_some() ==> final(w).img.cwd == (match cwd { Some(c) => Some(c.b@), None => None::<Seq<u8>> }), //[C06]
        final(w).img.exec_tried.is_some() ==> final(w).img.uid == setuid && final(w).img.gid == setgid && final(w).img.new_pgrp == setpgid, //[C06]
        final(w).img.exec_tried.is_some() ==> final(w).img.sig_clean, //[C18]
        final(w).img.exec_tried.is_some() ==> final(w).img.exec_tried == Some(just_exec.req@), //[C06]
//@end

//@fn os[unix]::impl(super::PopenOs+for+Popen)::os_start world=mut
//@rreplace 1 /config\.env\.as_deref\(\)\.map\(format_env\)/ => /format_env_opt(&config.env, Tracked(&*w))/
//@rreplace 1 /child_env\.as_deref\(\)/ => /opt_vec(&child_env)/
//@rreplace 1 /config\.cwd\.as_deref\(\)/ => /opt_osstr(&config.cwd)/
//@rreplace 1 /child_cwd\.as_deref\(\)/ => /opt_cstr(&child_cwd)/
//@rreplace 2 /drop\(exec_fail_pipe\.(\d)\)/ => /drop_file(exec_fail_pipe.\1, Tracked(w))/
    requires
        !old(w).s.in_child, argv@.len() > 0, !old(w).s.status_read_failed,
        // what the caller wants to run (C06): the executable if given, else argv[0]; the whole argv; an environment iff given
        old(w).s.want.cmd == (match config.executable { Some(e) => e.b@, None => argv@[0].b@ }) && old(w).s.want.argv == posix::bytes_of(argv@) && old(w).s.want.env.is_some() == config.env.is_some(),
        old(self).stdin.is_none(), old(self).stdout.is_none(), old(self).stderr.is_none(),
        user_file_ok(config.stdin), user_file_ok(config.stdout), user_file_ok(config.stderr), lib_only(old(w).s),
    ensures
        lib_only(final(w).s),
        !final(w).s.in_child, final(self).detached == old(self).detached, final(w).s.launch == old(w).s.launch,
        final(w).s.forks == old(w).s.forks || final(w).s.forks == old(w).s.forks + 1,
        // nothing was started: no fork happened, the handle is unchanged
        final(w).s.forks == old(w).s.forks ==> r is Err && final(w).s.child_unreaped == old(w).s.child_unreaped && final(self).child_state == old(self).child_state, //[C07]
        // invalid redirections are refused before anything is started
        config.stdin is Merge || (config.stdout is Merge && config.stderr is Merge) ==> r is Err && final(w).s.forks == old(w).s.forks, //[C05]
        // a handle is produced only when the program image was started, and only after that is known
        r is Ok ==> final(w).s.forks == old(w).s.forks + 1 && final(w).s.launch.is_none() && final(self).child_state == (ChildState::Running { pid: final(w).s.child_pid, ext: () }), //[C07]
        // a failed exec is reported with the error the child sent
        // after a fork the handle is Running -- or, when the launch failed and the child was reaped here, no longer Running with nothing left to reap
        final(w).s.forks == old(w).s.forks + 1 ==> (final(self).child_state == (ChildState::Running { pid: final(w).s.child_pid, ext: () }) && final(w).s.child_unreaped) || (r is Err && !final(w).s.child_unreaped && !(final(self).child_state is Running)), //[C07]
        // a failed launch leaves no child behind (the read of the status pipe itself failing is the one case not covered)
        r is Err && !final(w).s.status_read_failed && !old(w).s.child_unreaped ==> !final(w).s.child_unreaped, //[C07]
        final(w).s.forks == old(w).s.forks + 1 && final(w).s.launch.is_some() ==> r is Err, //[C07]
        r is Err && final(w).s.forks == old(w).s.forks + 1 && final(w).s.launch.is_some() && !(r->Err_0 is LogicError) ==>
            r->Err_0 is IoError && (r->Err_0->IoError_0.code == Some(final(w).s.launch.unwrap() as i32) || final(w).s.status_read_failed), //[C07]
        // the Popen exposes a parent-side handle exactly for the piped streams
        r is Ok ==> final(self).stdin.is_some() == (config.stdin is Pipe) && final(self).stdout.is_some() == (config.stdout is Pipe) && final(self).stderr.is_some() == (config.stderr is Pipe), //[C05]
        // C08: at the fork, the only inheritable library-created pipe ends were the child's own ends of this spawn's pipes
        // C08: at the fork NO pipe end created by this call was inheritable -- not even the child's own ends (they reach the child through dup2,
        // which does not copy the close-on-exec flag): a child forked concurrently by another thread cannot keep any of them past its exec
        final(w).s.forks == old(w).s.forks + 1 ==> (forall|o: int| #[trigger] final(w).s.at_fork_inheritable.contains(o) ==> old(w).s.inheritable.contains(o)), //[C08]
        forall|o: int| #[trigger] final(w).s.inheritable.contains(o) ==> old(w).s.inheritable.contains(o), //[C08]
        // C08: what the parent keeps is close-on-exec
        r is Ok ==> parent_end_cloexec(final(self).stdin, final(w).s) && parent_end_cloexec(final(self).stdout, final(w).s) && parent_end_cloexec(final(self).stderr, final(w).s), //[C08]
//@end

//@fn Popen::create world=mut
//@sreplace 1 /argv: &\[impl AsRef<OsStr>\]/ => /argv: &[OsString]/
//@rreplace 1 /argv\.iter\(\)\.map\(\|p\| p\.as_ref\(\)\.to_owned\(\)\)\.collect\(\)/ => /to_os_vec(argv)/
//@rreplace 1 /inst\.os_start\(argv, config, Tracked\(w\)\)\?;/ => /match inst.os_start(argv, config, Tracked(w)) { Ok(v) => v, Err(e) => { let mut inst = inst; inst.drop_impl(Tracked(w)); return Err(e); } };/
    requires
        !old(w).s.in_child, !old(w).s.child_unreaped, !old(w).s.status_read_failed, lib_only(old(w).s),
        argv@.len() > 0 ==> old(w).s.want.cmd == (match config.executable { Some(e) => e.b@, None => argv@[0].b@ }) && old(w).s.want.argv == posix::bytes_of(argv@) && old(w).s.want.env.is_some() == config.env.is_some(),
        user_file_ok(config.stdin), user_file_ok(config.stdout), user_file_ok(config.stderr),
    ensures
        !final(w).s.in_child,
        argv@.len() == 0 ==> r is Err && r->Err_0 is LogicError && final(w).s == old(w).s, //[C05,C16]
        config.stdin is Merge || (config.stdout is Merge && config.stderr is Merge) ==> r is Err && final(w).s.forks == old(w).s.forks, //[C05]
        // a handle exists only for a started program ...
        r is Ok ==> final(w).s.launch.is_none() && r->Ok_0.child_state == (ChildState::Running { pid: final(w).s.child_pid, ext: () }) && r->Ok_0.detached == config.detached, //[C07,C13,C12,C14]
        r is Ok ==> r->Ok_0.stdin.is_some() == (config.stdin is Pipe) && r->Ok_0.stdout.is_some() == (config.stdout is Pipe) && r->Ok_0.stderr.is_some() == (config.stderr is Pipe), //[C05,C13,C12,C14]
        // ... and a failed launch leaves no child behind, running or zombie, detached or not
        r is Err && !final(w).s.status_read_failed ==> !final(w).s.child_unreaped, //[C07,C14,C12]
//@end
}
} // verus!
fn main() {}
