//@unit builder
//@include models/buildw.rs
//@thread popen::make_pipe popen::set_inheritable Popen::create .popen .popen_releasing .wait .drop_impl drop_glue_popen drop_glue_vec_popen drop_glue_communicator drop_glue_opt_file communicate::communicate .communicate_start .read .setup_communicate .join .capture .stream_stdout .stream_stderr .stream_stdin

//@source src/popen.rs
use std::result;
//@enum PopenError
impl vstd::std_specs::convert::FromSpecImpl<io::Error> for PopenError {
    open spec fn obeys_from_spec() -> bool { true }
    open spec fn from_spec(v: io::Error) -> Self { PopenError::IoError(v) }
}
impl From<io::Error> for PopenError {
//@fn impl(From<io::Error>+for+PopenError)::from
//@end
}
//@item Result
pub use self::Result as PopenResult;
pub mod os {
//@item os[unix]::ExtChildState
}
//@enum ChildState
use ChildState::*;
//@struct Popen pubfields
//@enum Redirection
//@struct PopenConfig
//@include models/buildw_shims2.rs
use vstd::std_specs::convert::*;

//@source src/builder.rs
//@enum exec::InputRedirection
//@struct exec::OutputRedirection pubfields
// the From conversions of builder.rs (their bodies are one-liners; the Merge panic of From<Redirection> for InputRedirection is
// checked by a Kani should_panic harness)
impl FromSpecImpl<Redirection> for InputRedirection {
    open spec fn obeys_from_spec() -> bool { true }
    open spec fn from_spec(r: Redirection) -> Self { InputRedirection::AsRedirection(r) }
}
//@include models/buildw_from.rs
// ... its body, verified as a free-standing function under the precondition the callers' contracts establish (no Merge on an input)
impl InputRedirection {
//@fn exec::impl(From<Redirection>+for+InputRedirection)::from vis=pub rename=input_redirection_from ret=res
//@rreplace 1 /panic!\("[^"]*"\);/ => /documented_panic();/
    requires !(r is Merge),     // documented panic
    ensures res == <InputRedirection as vstd::std_specs::convert::FromSpec<Redirection>>::from_spec(r), //[C16]
//@end
}
// the NullFile conversions: bodies verified as free-standing functions (a child's input must be opened for reading, an output for writing)
impl InputRedirection {
//@fn exec::impl(From<NullFile>+for+InputRedirection)::from vis=pub rename=input_redirection_from_null ret=res
//@rreplace 1 /OpenOptions::new\(\)\.(read|write)\(true(, Tracked\(w\))?\)\.open\(NULL_DEVICE\)\.unwrap\(\)/ => /open_null_device_\1()/
    ensures res is AsRedirection && res->AsRedirection_0 is File && is_null_device(res->AsRedirection_0->File_0.obj@) && opened_for(res->AsRedirection_0->File_0.obj@).0, //[C05,C16]
//@end
}
impl OutputRedirection {
//@fn exec::impl(From<NullFile>+for+OutputRedirection)::from vis=pub rename=output_redirection_from_null ret=res
//@rreplace 1 /OpenOptions::new\(\)\.(read|write)\(true(, Tracked\(w\))?\)\.open\(NULL_DEVICE\)\.unwrap\(\)/ => /open_null_device_\1()/
    ensures res.0 is File && is_null_device(res.0->File_0.obj@) && opened_for(res.0->File_0.obj@).1, //[C05,C16]
//@end
}
impl FromSpecImpl<File> for InputRedirection {
    open spec fn obeys_from_spec() -> bool { true }
    open spec fn from_spec(f: File) -> Self { InputRedirection::AsRedirection(Redirection::File(f)) }
}
impl From<File> for InputRedirection {
//@fn exec::impl(From<File>+for+InputRedirection)::from
//@end
}
impl FromSpecImpl<Vec<u8>> for InputRedirection {
    open spec fn obeys_from_spec() -> bool { true }
    open spec fn from_spec(v: Vec<u8>) -> Self { InputRedirection::FeedData(v) }
}
impl From<Vec<u8>> for InputRedirection {
//@fn exec::impl(From<Vec<u8>>+for+InputRedirection)::from
//@end
}
impl FromSpecImpl<Redirection> for OutputRedirection {
    open spec fn obeys_from_spec() -> bool { true }
    open spec fn from_spec(r: Redirection) -> Self { OutputRedirection(r) }
}
impl From<Redirection> for OutputRedirection {
//@fn exec::impl(From<Redirection>+for+OutputRedirection)::from ret=res
//@end
}
impl FromSpecImpl<File> for OutputRedirection {
    open spec fn obeys_from_spec() -> bool { true }
    open spec fn from_spec(f: File) -> Self { OutputRedirection(Redirection::File(f)) }
}
impl From<File> for OutputRedirection {
//@fn exec::impl(From<File>+for+OutputRedirection)::from
//@end
}
impl OutputRedirection {
//@fn exec::OutputRedirection::into_redirection vis=pub
    ensures r == self.0
//@end
}

//@item os[unix]::SHELL static_refs
//@struct exec::Exec pubfields
//@struct exec::CaptureData pubfields

// ---------------------------------------------------------------- C16: the plain command description an Exec stands for
pub open spec fn in_ok<T: Into<InputRedirection>>(cur: Redirection, new: T) -> bool {
    // the documented accepting cases of Exec::stdin: first setting, or Pipe repeated
    &&& <T as IntoSpec<_>>::obeys_into_spec()
    &&& ((cur is None) || (cur is Pipe && IntoSpec::into_spec(new) == InputRedirection::AsRedirection(Redirection::Pipe)))
    // Redirection::Merge is only allowed for output streams (the conversion panics)
    &&& !(IntoSpec::into_spec(new) is AsRedirection && IntoSpec::into_spec(new)->AsRedirection_0 is Merge)
}
pub open spec fn out_ok<T: Into<OutputRedirection>>(cur: Redirection, new: T) -> bool {
    &&& <T as IntoSpec<_>>::obeys_into_spec()
    &&& ((cur is None) || (cur is Pipe && IntoSpec::into_spec(new).0 is Pipe))
}

// ---------------------------------------------------------------- cloning (C16: an independent, equivalent command)
pub open spec fn redir_equiv(a: Redirection, b: Redirection) -> bool {
    match a {
        Redirection::None => b is None, Redirection::Pipe => b is Pipe, Redirection::Merge => b is Merge,
        Redirection::File(f) => b is File && dup_of(b->File_0.obj@, f.obj@),      // a duplicate descriptor of the same open file
        Redirection::RcFile(f) => b is RcFile && b->RcFile_0.obj@ == f.obj@,
    }
}
impl Redirection {
//@source src/popen.rs
//@fn Redirection::try_clone vis=pub
    ensures r is Ok ==> redir_equiv(*self, r->Ok_0), //[C16]
        !(self is File) ==> r is Ok,    // documented: can only fail for the File variant
//@end
}
impl PopenConfig {
//@fn PopenConfig::try_clone vis=pub
    ensures !(self.stdin is File) && !(self.stdout is File) && !(self.stderr is File) ==> r is Ok,
      r is Ok ==> {
        let c = r->Ok_0;
        &&& redir_equiv(self.stdin, c.stdin) && redir_equiv(self.stdout, c.stdout) && redir_equiv(self.stderr, c.stderr)
        // (the owned strings are copied with std's Clone; their byte-equality is std's contract and is not restated here)
        &&& c.detached == self.detached && c.executable.is_some() == self.executable.is_some() && c.env.is_some() == self.env.is_some() && c.cwd.is_some() == self.cwd.is_some()
        &&& c.setuid == self.setuid && c.setgid == self.setgid && c.setpgid == self.setpgid
    }, //[C16,C06]
//@end
//@source src/builder.rs
}
impl Exec {
// (Clone::clone emitted as the inherent method clone_impl so that its documented panic can be a precondition)
//@fn exec::impl(Clone+for+Exec)::clone rename=clone_impl vis=pub
    requires !(self.config.stdin is File) && !(self.config.stdout is File) && !(self.config.stderr is File),    // documented: panics if a File cannot be duplicated
    ensures r.command.b@ == self.command.b@, r.args@.len() == self.args@.len(),
        r.stdin_data.is_some() == self.stdin_data.is_some(),
        redir_equiv(self.config.stdin, r.config.stdin) && redir_equiv(self.config.stdout, r.config.stdout) && redir_equiv(self.config.stderr, r.config.stderr),
        r.config.detached == self.config.detached && r.config.executable.is_some() == self.config.executable.is_some() && r.config.env.is_some() == self.config.env.is_some() && r.config.cwd.is_some() == self.config.cwd.is_some(),
        // a clone runs as the same user / group / process-group setting
        r.config.setuid == self.config.setuid && r.config.setgid == self.config.setgid && r.config.setpgid == self.config.setpgid, //[C16,C06]
//@end
}
impl Default for PopenConfig {
//@source src/popen.rs
//@fn impl(Default+for+PopenConfig)::default
    ensures r.stdin is None, r.stdout is None, r.stderr is None, !r.detached, r.executable.is_none(), r.env.is_none(), r.cwd.is_none(), r.setuid.is_none(), r.setgid.is_none(), !r.setpgid,
//@end
//@source src/builder.rs
}
// C08: between spawns no library-created pipe end is inheritable ...
pub open spec fn no_inheritable(w: BW) -> bool { forall|o: int| !(#[trigger] w.inheritable.contains(o)) }
// ... except the shared stderr sink a pipeline hands to every one of its stages
pub open spec fn inh_ok(w: BW, stderr_file: Option<File>) -> bool { forall|o: int| #[trigger] w.inheritable.contains(o) ==> stderr_file.is_some() && stderr_file.unwrap().obj@ == o }
// everything of an Exec except the named part is unchanged
pub open spec fn same_streams(a: Exec, b: Exec) -> bool {
    a.config.stdin == b.config.stdin && a.config.stdout == b.config.stdout && a.config.stderr == b.config.stderr && a.config.detached == b.config.detached && a.stdin_data == b.stdin_data
        && a.config.executable == b.config.executable && a.config.setuid == b.config.setuid && a.config.setgid == b.config.setgid && a.config.setpgid == b.config.setpgid
}
impl Exec {
//@fn exec::Exec::cmd vis=pub
    ensures r.command.b@ == command.bytes(), r.args@.len() == 0, r.stdin_data.is_none(), //[C16]
        r.config.stdin is None, r.config.stdout is None, r.config.stderr is None, !r.config.detached, r.config.env.is_none(), r.config.cwd.is_none(), r.config.executable.is_none(),
//@end
//@fn exec::Exec::arg vis=pub
//@selfmut
    ensures r.command == self.command, same_streams(self, r), r.config.env == self.config.env, r.config.cwd == self.config.cwd,
        // arguments appear in the order added
        r.args@.len() == self.args@.len() + 1 && r.args@.subrange(0, self.args@.len() as int) == self.args@ && r.args@.last().b@ == arg.bytes(), //[C16]
//@end
//@fn exec::Exec::args vis=pub
//@selfmut
//@sreplace 1 /pub fn args\(/ => /pub fn args<A: AsRef<OsStr>>(/
//@sreplace 1 /args: &\[impl AsRef<OsStr>\]/ => /args: &[A]/
//@rreplace 1 /this\.args\.extend\(args\.iter\(\)\.map\(\|x\| x\.as_ref\(\)\.to_owned\(\)\)\);/ => /let ghost a0_ = this.args@; for x in it: args.iter() invariant this.args@.len() == a0_.len() + it.index@, this.args@.subrange(0, a0_.len() as int) == a0_, this.command == self.command, this.config == self.config, this.stdin_data == self.stdin_data, forall|k: int| 0 <= k < it.index@ ==> (#[trigger] this.args@[a0_.len() + k]).b@ == args@[k].bytes(), { this.args.push(x.as_ref().to_owned()); }/
    // R6: Vec::extend(iter.map(f)) = push f(x) for every x in order
    ensures r.command == self.command, same_streams(self, r), r.config.env == self.config.env, r.config.cwd == self.config.cwd,
        r.args@.len() == self.args@.len() + args@.len() && r.args@.subrange(0, self.args@.len() as int) == self.args@, //[C16]
        forall|k: int| 0 <= k < args@.len() ==> (#[trigger] r.args@[self.args@.len() + k]).b@ == args@[k].bytes(), //[C16]
//@end
//@fn exec::Exec::shell vis=pub
    // Exec::shell passes its string to the platform shell as one single argument: `sh -c <cmdstr>`
    // (that args[0] is SHELL[1] = "-c" needs a spec for slicing a const array, which vstd lacks: not claimed)
    ensures r.command.b@ == str_bytes(SHELL[0]), r.args@.len() == 2, r.args@[1].b@ == cmdstr.bytes(), //[C16]
        r.stdin_data.is_none(), r.config.stdin is None, r.config.stdout is None, r.config.stderr is None, r.config.env.is_none(),
//@end
//@fn exec::Exec::cwd vis=pub
//@selfmut
//@sreplace 1 /dir: impl AsRef<Path>/ => /dir: impl AsRef<OsStr>/
//@rreplace 1 /dir\.as_ref\(\)\.as_os_str\(\)\.to_owned\(\)/ => /dir.as_ref().to_owned()/
    // R6: a Path is its OsStr (Path::as_os_str is the identity on the bytes)
    ensures r.command == self.command, r.args == self.args, same_streams(self, r), r.config.env == self.config.env,
        r.config.cwd.is_some() && r.config.cwd.unwrap().b@ == dir.bytes(), //[C16]
//@end
//@fn exec::Exec::ensure_env
    ensures final(self).command == old(self).command, final(self).args == old(self).args, same_streams(*old(self), *final(self)), final(self).config.cwd == old(self).config.cwd,
        // the environment is inherited (a snapshot of the parent's) unless it was already given or cleared
        final(self).config.env.is_some(), old(self).config.env.is_some() ==> final(self).config.env == old(self).config.env, //[C16]
        old(self).config.env.is_none() ==> final(self).config.env.unwrap()@ == parent_env(), //[C16]
//@end
//@fn exec::Exec::env_clear vis=pub
//@selfmut
    ensures r.command == self.command, r.args == self.args, same_streams(self, r), r.config.cwd == self.config.cwd,
        r.config.env.is_some() && r.config.env.unwrap()@.len() == 0, //[C16]
//@end
//@fn exec::Exec::env vis=pub
//@selfmut
    ensures r.command == self.command, r.args == self.args, same_streams(self, r), r.config.cwd == self.config.cwd,
        // environment edits are ordered edits on a copy of the environment: setting appends (the last value set wins when the list is used)
        r.config.env.is_some() && ({
            let base = if self.config.env.is_some() { self.config.env.unwrap()@ } else { parent_env() };
            let e = r.config.env.unwrap()@;
            e.len() == base.len() + 1 && e.subrange(0, base.len() as int) == base && e.last().0.b@ == key.bytes() && e.last().1.b@ == value.bytes()
        }), //[C16]
//@end
//@fn exec::Exec::env_extend vis=pub
//@selfmut
//@sreplace 1 /pub fn env_extend\(/ => /pub fn env_extend<K: AsRef<OsStr>, V: AsRef<OsStr>>(/
//@sreplace 1 /vars: &\[\(impl AsRef<OsStr>, impl AsRef<OsStr>\)\]/ => /vars: &[(K, V)]/
//@rreplace 1 /let envvec = this\.config\.env\.as_mut\(\)\.unwrap\(\);\s*envvec\.extend\(\s*vars\.iter\(\)\s*\.map\(\|\(k, v\)\| \(k\.as_ref\(\)\.to_owned\(\), v\.as_ref\(\)\.to_owned\(\)\)\),\s*\);/ => /let mut envvec = this.config.env.unwrap(); let ghost e0_ = envvec@; for kv in it: vars.iter() invariant envvec@.len() == e0_.len() + it.index@, envvec@.subrange(0, e0_.len() as int) == e0_, forall|j: int| 0 <= j < it.index@ ==> (#[trigger] envvec@[e0_.len() + j]).0.b@ == vars@[j].0.bytes() && envvec@[e0_.len() + j].1.b@ == vars@[j].1.bytes(), { envvec.push((kv.0.as_ref().to_owned(), kv.1.as_ref().to_owned())); } this.config.env = Some(envvec);/
    // R6: Vec::extend(iter.map(f)) = push f(x) for every x in order (the closure destructures the pair)
    ensures r.command == self.command, r.args == self.args, same_streams(self, r), r.config.cwd == self.config.cwd,
        r.config.env.is_some() && ({
            let base = if self.config.env.is_some() { self.config.env.unwrap()@ } else { parent_env() };
            let e = r.config.env.unwrap()@;
            &&& e.len() == base.len() + vars@.len() && e.subrange(0, base.len() as int) == base
            &&& forall|j: int| 0 <= j < vars@.len() ==> (#[trigger] e[base.len() + j]).0.b@ == vars@[j].0.bytes() && e[base.len() + j].1.b@ == vars@[j].1.bytes()
        }), //[C16]
//@end
//@fn exec::Exec::env_remove vis=pub
//@selfmut
//@rreplace 1 /this\.config\s*\.env\s*\.as_mut\(\)\s*\.unwrap\(\)\s*\.retain\(\|\(k, _v\)\| k != key\.as_ref\(\)\);/ => /{ let mut env_ = this.config.env.unwrap(); env_retain_ne(&mut env_, key.as_ref()); this.config.env = Some(env_); }/
    ensures r.command == self.command, r.args == self.args, same_streams(self, r), r.config.cwd == self.config.cwd,
        // removed names are absent (until set again)
        r.config.env.is_some() && ({
            let base = if self.config.env.is_some() { self.config.env.unwrap()@ } else { parent_env() };
            r.config.env.unwrap()@ == base.filter(|kv: (OsString, OsString)| kv.0.b@ != key.bytes())
        }), //[C16]
//@end
//@fn exec::Exec::detached vis=pub
//@selfmut
    ensures r.config.detached, r.command == self.command, r.args == self.args, r.stdin_data == self.stdin_data,
        r.config.stdin == self.config.stdin && r.config.stdout == self.config.stdout && r.config.stderr == self.config.stderr && r.config.env == self.config.env && r.config.cwd == self.config.cwd,
//@end

//@fn exec::Exec::stdin vis=pub
//@selfmut
//@sreplace 1 /pub fn stdin\(/ => /pub fn stdin<T: Into<InputRedirection>>(/
//@sreplace 1 /stdin: impl Into<InputRedirection>/ => /stdin: T/
    requires in_ok(self.config.stdin, stdin), //[C16]
    ensures
        r.command == self.command, r.args == self.args, r.config.detached == self.config.detached,
        r.config.stdout == self.config.stdout && r.config.stderr == self.config.stderr && r.config.env == self.config.env && r.config.cwd == self.config.cwd,
        match IntoSpec::into_spec(stdin) {
            InputRedirection::AsRedirection(new) => r.stdin_data == self.stdin_data && r.config.stdin == (if self.config.stdin is None { new } else { self.config.stdin }),
            InputRedirection::FeedData(data) => r.config.stdin is Pipe && r.stdin_data == Some(data),
        }, //[C16]
//@end

//@fn exec::Exec::stdout vis=pub
//@selfmut
//@sreplace 1 /pub fn stdout\(/ => /pub fn stdout<T: Into<OutputRedirection>>(/
//@sreplace 1 /stdout: impl Into<OutputRedirection>/ => /stdout: T/
    requires out_ok(self.config.stdout, stdout), //[C16]
    ensures
        r.command == self.command, r.args == self.args, r.config.detached == self.config.detached, r.stdin_data == self.stdin_data,
        r.config.stdin == self.config.stdin && r.config.stderr == self.config.stderr && r.config.env == self.config.env && r.config.cwd == self.config.cwd,
        r.config.stdout == (if self.config.stdout is None { IntoSpec::into_spec(stdout).0 } else { self.config.stdout }), //[C16]
//@end

//@fn exec::Exec::stderr vis=pub
//@selfmut
//@sreplace 1 /pub fn stderr\(/ => /pub fn stderr<T: Into<OutputRedirection>>(/
//@sreplace 1 /stderr: impl Into<OutputRedirection>/ => /stderr: T/
    requires out_ok(self.config.stderr, stderr), //[C16]
    ensures
        r.command == self.command, r.args == self.args, r.config.detached == self.config.detached, r.stdin_data == self.stdin_data,
        r.config.stdin == self.config.stdin && r.config.stdout == self.config.stdout && r.config.env == self.config.env && r.config.cwd == self.config.cwd,
        r.config.stderr == (if self.config.stderr is None { IntoSpec::into_spec(stderr).0 } else { self.config.stderr }), //[C16]
//@end

//@fn exec::Exec::check_no_stdin_data
    requires self.stdin_data.is_none(), //[C16]
//@end

//@fn exec::Exec::popen vis=pub world=mut
//@selfmut
    requires self.stdin_data.is_none(), old(w).s.stages.len() < 0xffff_ffff, //[C16]
        forall|o: int| #[trigger] old(w).s.inheritable.contains(o) ==> is_given_obj(o, self.config), //[C08]
    ensures match r {
        Ok(p) => {
            // the command run is the builder's command followed by the arguments in the order they were added
            &&& final(w).s == (BW { stages: old(w).s.stages.push(stage_of(self.args@.insert(0, self.command), self.config, p)), ..old(w).s }) //[C16,C13]
            &&& running(p, old(w).s.stages.len() as int) && p.detached == self.config.detached && final(w).s.inheritable == old(w).s.inheritable
            &&& p.stdin.is_some() == (self.config.stdin is Pipe) && p.stdout.is_some() == (self.config.stdout is Pipe) && p.stderr.is_some() == (self.config.stderr is Pipe)
        },
        Err(e) => final(w).s == old(w).s,
    }
//@end

//@fn exec::Exec::join vis=pub world=mut
    requires no_inheritable(old(w).s), no_parked(old(w).s), self.stdin_data.is_none(), old(w).s.stages.len() < 0xffff_ffff, //[C16]
    ensures
        r is Ok ==> final(w).s.stages.len() == old(w).s.stages.len() + 1 && final(w).s.stages.last().reaped, //[C12]
        r is Err ==> final(w).s == old(w).s,
//@end

//@fn exec::Exec::stream_stdout vis=pub world=mut
//@sreplace 1 /PopenResult<impl Read>/ => /PopenResult<ReadOutAdapter>/
    requires no_inheritable(old(w).s), self.stdin_data.is_none(), old(w).s.stages.len() < 0xffff_ffff, self.config.stdout is None || self.config.stdout is Pipe, //[C16]
    ensures
        r is Ok ==> stage_ok(r->Ok_0.0, final(w).s) && r->Ok_0.0.stdout.is_some() && (self.config.stdin is None && self.config.stderr is None ==> r->Ok_0.0.stdin.is_none() && r->Ok_0.0.stderr.is_none()),
        r is Ok ==> final(w).s.stages.len() == old(w).s.stages.len() + 1,
        r is Err ==> final(w).s == old(w).s,
//@end
//@fn exec::Exec::stream_stderr vis=pub world=mut
//@sreplace 1 /PopenResult<impl Read>/ => /PopenResult<ReadErrAdapter>/
    requires no_inheritable(old(w).s), self.stdin_data.is_none(), old(w).s.stages.len() < 0xffff_ffff, self.config.stderr is None || self.config.stderr is Pipe, //[C16]
    ensures
        r is Ok ==> stage_ok(r->Ok_0.0, final(w).s) && r->Ok_0.0.stderr.is_some() && (self.config.stdin is None && self.config.stdout is None ==> r->Ok_0.0.stdin.is_none() && r->Ok_0.0.stdout.is_none()),
        r is Err ==> final(w).s == old(w).s,
//@end
//@fn exec::Exec::stream_stdin vis=pub world=mut
//@sreplace 1 /PopenResult<impl Write>/ => /PopenResult<WriteAdapter>/
    requires no_inheritable(old(w).s), self.stdin_data.is_none(), old(w).s.stages.len() < 0xffff_ffff, self.config.stdin is None || self.config.stdin is Pipe, //[C16]
    ensures
        r is Ok ==> stage_ok(r->Ok_0.0, final(w).s) && r->Ok_0.0.stdin.is_some() && (self.config.stdout is None && self.config.stderr is None ==> r->Ok_0.0.stdout.is_none() && r->Ok_0.0.stderr.is_none()),
        r is Err ==> final(w).s == old(w).s,
//@end

//@fn exec::Exec::setup_communicate world=mut
//@selfmut
    requires no_inheritable(old(w).s), old(w).s.stages.len() < 0xffff_ffff,
        // input data was given exactly when stdin is a pipe (Exec::stdin arranges that; otherwise communicate_start panics as documented)
        self.stdin_data.is_some() == (self.config.stdin is Pipe),
    ensures
        r is Ok ==> stage_ok(r->Ok_0.1, final(w).s) && holds_no_pipe(r->Ok_0.1) && final(w).s.stages.len() == old(w).s.stages.len() + 1
            && r->Ok_0.1.detached == self.config.detached && r->Ok_0.1.child_state is Running && r->Ok_0.1.child_state->pid as int == old(w).s.stages.len()
            && final(w).s.stages.last().reaped == false && final(w).s.stages.last().detached == self.config.detached && final(w).s.stages.subrange(0, old(w).s.stages.len() as int) == old(w).s.stages,
        final(w).s.full_reads == old(w).s.full_reads,
        // the Communicator holds the child's pipe ends: the library must not wait for the child while it is alive and unfinished
        r is Ok ==> final(w).s.parked =~= old(w).s.parked.union(r->Ok_0.0.ends@) && final(w).s.inheritable == old(w).s.inheritable, //[C12]
        // an Exec with neither output configured gets its stdout piped, so capture() has something to read
        r is Ok ==> (self.config.stdout is None && self.config.stderr is None ==> r->Ok_0.0.out_piped@),
        // C02: a stream that was not piped is reported as absent -- exactly the requested streams are captured
        r is Ok ==> r->Ok_0.0.out_piped@ == (self.config.stdout is Pipe || (self.config.stdout is None && self.config.stderr is None)) && r->Ok_0.0.err_piped@ == (self.config.stderr is Pipe), //[C02,C16]
        r is Err ==> final(w).s == old(w).s,
//@end

//@fn exec::Exec::communicate vis=pub world=mut
//@rreplace 1 /Ok\(comm\)/ => /proof { hand_over(w, comm.ends@); } Ok(comm)/
    requires no_inheritable(old(w).s), no_parked(old(w).s), old(w).s.stages.len() < 0xffff_ffff, self.stdin_data.is_some() == (self.config.stdin is Pipe),
    ensures r is Err ==> final(w).s == old(w).s,
        r is Ok ==> final(w).s.stages.len() == old(w).s.stages.len() + 1 && final(w).s.stages.last().detached,
        no_parked(final(w).s),
//@end

//@fn exec::Exec::capture vis=pub world=mut
// exit elaboration (Rust drops the locals of a frame in reverse order of declaration: `p`, then `comm`):
//   shape A  `let (..) = comm.read()?;`                        on Err: p is dropped (waited for) while comm still holds the pipe ends
//   shape B  `let captured = comm.read(); drop(comm); let (..) = captured?;`   on Err: only p is left
//@rreplace ? /let \(maybe_out, maybe_err\) = comm\.read\(Tracked\(w\)\)\?;/ => /let (maybe_out, maybe_err) = match comm.read(Tracked(w)) { Ok(x_) => x_, Err(e_) => { drop_glue_popen(p, Tracked(w)); drop_glue_communicator(comm, Tracked(w)); return Err(PopenError::from(e_)); } };/
//@rreplace ? /drop\(comm\);/ => /drop_glue_communicator(comm, Tracked(w));/
//@rreplace ? /let \(maybe_out, maybe_err\) = captured\?;/ => /let (maybe_out, maybe_err) = match captured { Ok(x_) => x_, Err(e_) => { drop_glue_popen(p, Tracked(w)); return Err(PopenError::from(e_)); } };/
//@forbid /comm\.read\(Tracked\(w\)\)\?/
//@forbid /captured\?/
//@forbid /\breturn\s+(?!Err\((e_|PopenError::from\(e_\))\);)/
    requires no_inheritable(old(w).s), no_parked(old(w).s), old(w).s.stages.len() < 0xffff_ffff, self.stdin_data.is_some() == (self.config.stdin is Pipe),
    ensures
        // capture returns only after the child has been waited for
        r is Ok ==> final(w).s.stages.len() == old(w).s.stages.len() + 1 && final(w).s.stages.last().reaped, //[C12]
        // what capture returns as Ok is the outcome of an exchange that ran to completion (nothing the child wrote is missing)
        r is Ok ==> final(w).s.full_reads == old(w).s.full_reads + 1, //[C02,C12]
        // ... also when the exchange fails: the child started by capture is reaped unless detached (and nothing was waited for while the
        // library still held the child's pipe ends: precondition of the waits)
        final(w).s.stages.len() > old(w).s.stages.len() && !final(w).s.stages.last().detached ==> final(w).s.stages.last().reaped, //[C12]
//@end
}

//@struct exec::ReadOutAdapter pubfields
//@struct exec::ReadErrAdapter pubfields
//@struct exec::WriteAdapter pubfields
impl ReadOutAdapter {
//@fn exec::impl(Drop+for+ReadOutAdapter)::drop optional rename=drop_impl
    // the caller can release the read end in no other way: it must be closed before the Popen's drop waits
    ensures final(self).0.stdout.is_none(), final(self).0.stdin == old(self).0.stdin, final(self).0.stderr == old(self).0.stderr, final(self).0.child_state == old(self).0.child_state, final(self).0.detached == old(self).0.detached, //[C12]
//@end
}
impl ReadErrAdapter {
//@fn exec::impl(Drop+for+ReadErrAdapter)::drop optional rename=drop_impl
    ensures final(self).0.stderr.is_none(), final(self).0.stdin == old(self).0.stdin, final(self).0.stdout == old(self).0.stdout, final(self).0.child_state == old(self).0.child_state, final(self).0.detached == old(self).0.detached, //[C12]
//@end
}
impl WriteAdapter {
//@fn exec::impl(Drop+for+WriteAdapter)::drop optional rename=drop_impl
    ensures final(self).0.stdin.is_none(), final(self).0.stdout == old(self).0.stdout, final(self).0.stderr == old(self).0.stderr, final(self).0.child_state == old(self).0.child_state, final(self).0.detached == old(self).0.detached, //[C12]
//@end
}

//@struct pipeline::Pipeline pubfields
//@struct pipeline::ReadPipelineAdapter pubfields
//@struct pipeline::WritePipelineAdapter pubfields
impl ReadPipelineAdapter {
//@fn pipeline::impl(Drop+for+ReadPipelineAdapter)::drop optional rename=drop_impl
    requires old(self).0@.len() >= 1,
    ensures final(self).0@.len() == old(self).0@.len(),
        forall|i: int| 0 <= i < old(self).0@.len() - 1 ==> (#[trigger] final(self).0@[i]) == old(self).0@[i],
        ({ let n = old(self).0@.len() - 1; let a = old(self).0@[n]; let b = final(self).0@[n];
           b.stdout.is_none() && b.stdin == a.stdin && b.stderr == a.stderr && b.child_state == a.child_state && b.detached == a.detached }), //[C12]
//@end
}
impl WritePipelineAdapter {
//@fn pipeline::impl(Drop+for+WritePipelineAdapter)::drop optional rename=drop_impl
    requires old(self).0@.len() >= 1,
    ensures final(self).0@.len() == old(self).0@.len(),
        forall|i: int| 1 <= i < old(self).0@.len() ==> (#[trigger] final(self).0@[i]) == old(self).0@[i],
        ({ let a = old(self).0@[0]; let b = final(self).0@[0];
           b.stdin.is_none() && b.stdout == a.stdout && b.stderr == a.stderr && b.child_state == a.child_state && b.detached == a.detached }), //[C12]
//@end
}
//@include models/buildw_glue.rs

// ---------------------------------------------------------------- C13: what "stage i feeds stage i+1 and nothing else" means
pub open spec fn exec_argv(e: Exec) -> Seq<Seq<u8>> { bytes_of(e.args@.insert(0, e.command)) }
// the commands of a pipeline must leave their connecting streams alone, and carry no input data of their own (documented panics otherwise)
pub open spec fn cmds_ok(cmds: Seq<Exec>, has_stderr_file: bool) -> bool {
    &&& cmds.len() >= 2
    &&& forall|i: int| 0 <= i < cmds.len() ==> {
            &&& (#[trigger] cmds[i]).stdin_data.is_none() && cmds[i].config.stdin is None
            &&& (cmds[i].config.stdout is None || (i < cmds.len() - 1 && cmds[i].config.stdout is Pipe))
            &&& (has_stderr_file ==> cmds[i].config.stderr is None)
        }
}
// the stage before stage j (a separate function symbol, so that instantiating chain_ok does not feed its own trigger)
pub open spec fn prev_st(s: Seq<Stage>, j: int) -> Stage { s[j - 1] }
pub open spec fn chain_ok(s: Seq<Stage>, lo: int, hi: int) -> bool {
    // every stage after the first reads exactly the pipe the previous stage writes
    forall|j: int| lo < j < hi ==> prev_st(s, j).stdout is NewPipe && (#[trigger] s[j]).stdin == Given::Obj(prev_st(s, j).stdout->NewPipe_0)
}
//@include models/buildw_maps.rs
impl Pipeline {
//@fn pipeline::Pipeline::new vis=pub
    ensures r.cmds@ == seq![cmd1, cmd2], r.stdin is None, r.stdout is None, r.stderr_file.is_none(), r.stdin_data.is_none(), //[C13]
//@end
//@fn pipeline::Pipeline::from_exec_iter vis=pub
//@sreplace 1 /I: IntoIterator<Item = Exec>,/ => /I: ExecSource,/
//@rreplace 1 /iterable\.into_iter\(\)\.collect\(\)/ => /collect_execs(iterable)/
//@rreplace 1 /panic!\("[^"]*"\)/ => /documented_panic()/
    requires iterable.items().len() >= 2,     // documented panic
    // the stages are the iterator's elements in the iterator's order, and nothing is redirected yet
    ensures r.cmds@ == iterable.items(), r.stdin is None, r.stdout is None, r.stderr_file.is_none(), r.stdin_data.is_none(), //[C13]
//@end
//@fn pipeline::Pipeline::stdin vis=pub
//@selfmut
//@sreplace 1 /pub fn stdin\(/ => /pub fn stdin<T: Into<InputRedirection>>(/
//@sreplace 1 /stdin: impl Into<InputRedirection>/ => /stdin: T/
    requires <T as IntoSpec<_>>::obeys_into_spec(), !(IntoSpec::into_spec(stdin) is AsRedirection && IntoSpec::into_spec(stdin)->AsRedirection_0 is Merge),
    ensures r.cmds == self.cmds, r.stdout == self.stdout, r.stderr_file == self.stderr_file,
        match IntoSpec::into_spec(stdin) {
            InputRedirection::AsRedirection(new) => r.stdin == new && r.stdin_data == self.stdin_data,
            InputRedirection::FeedData(data) => r.stdin is Pipe && r.stdin_data == Some(data),
        },
//@end
//@fn pipeline::Pipeline::stdout vis=pub
//@selfmut
//@sreplace 1 /pub fn stdout\(/ => /pub fn stdout<T: Into<OutputRedirection>>(/
//@sreplace 1 /stdout: impl Into<OutputRedirection>/ => /stdout: T/
    requires <T as IntoSpec<_>>::obeys_into_spec(),
    ensures r.cmds == self.cmds, r.stdin == self.stdin, r.stderr_file == self.stderr_file, r.stdin_data == self.stdin_data, r.stdout == IntoSpec::into_spec(stdout).0,
//@end
//@fn pipeline::Pipeline::stderr_to vis=pub
//@selfmut
    ensures r.cmds == self.cmds, r.stdin == self.stdin, r.stdout == self.stdout, r.stdin_data == self.stdin_data, r.stderr_file == Some(to),
//@end
//@fn pipeline::Pipeline::check_no_stdin_data
    requires self.stdin_data.is_none(),
//@end

//@fn pipeline::Pipeline::popen vis=pub world=mut
//@selfmut
// Two shapes are supported, so that undoing the D13 repair shows up as a failed obligation and not as a lost anchor:
//   (a) the whole body here (before the repair): then the loops below exist and the parked set cannot change;
//   (b) `self.popen_releasing(&mut None)`: the body lives in popen_releasing (next block), the loops are absent here.
//@include builder_popen_rewrites.inc
//@rreplace ? /this\.popen_releasing\(&mut None, Tracked\(w\)\)/ => /{ let mut none_: Option<File> = None; this.popen_releasing(&mut none_, Tracked(w)) }/
//@entry
        broadcast use given_lemmas;
//@contract
    requires
        inh_ok(old(w).s, self.stderr_file), //[C08]
        self.stdin_data.is_none(), cmds_ok(self.cmds@, self.stderr_file.is_some()), !(self.stdin is Merge),
        old(w).s.stages.len() + self.cmds@.len() < 0xffff_ffff,
        // whoever calls popen() must not itself be sitting on a pipe end the commands may block on: the commands started so far
        // are waited for if a later one fails to start
        no_parked(old(w).s), //[C12,C14]
    ensures final(w).s.parked == old(w).s.parked, final(w).s.full_reads == old(w).s.full_reads, match r {
        Ok(v) => ({
//@include builder_popen_ok.inc
        }),
        Err(e) => ({
//@include builder_popen_err.inc
        }),
    }
//@loop 0 optional
        invariant
            w.s.parked == old(w).s.parked, no_parked(w.s), w.s.full_reads == old(w).s.full_reads,
//@include builder_popen_loop0.inc
//@loop 1 optional
        invariant
            w.s.parked == old(w).s.parked, no_parked(w.s), w.s.full_reads == old(w).s.full_reads,
//@include builder_popen_loop1.inc
//@end

//@fn pipeline::Pipeline::popen_releasing ifpresent world=mut
//@selfmut
//@include builder_popen_rewrites.inc
// `release_on_failure.take();` drops the File at the end of the statement: it is closed before the wait
//@rreplace 1 /release_on_failure\.take\(\);/ => /drop_glue_opt_file(release_on_failure.take(), Tracked(w));/
//@entry
        broadcast use given_lemmas;
//@contract
    requires
        inh_ok(old(w).s, self.stderr_file), //[C08]
        self.stdin_data.is_none(), cmds_ok(self.cmds@, self.stderr_file.is_some()), !(self.stdin is Merge),
        old(w).s.stages.len() + self.cmds@.len() < 0xffff_ffff,
        // the only pipe end the caller may be sitting on is the one it passes in to be released
        parked_within(old(w).s, *old(release_on_failure)), //[C12,C14]
    ensures
        r is Ok ==> final(w).s.parked == old(w).s.parked && *final(release_on_failure) == *old(release_on_failure),
        final(w).s.full_reads == old(w).s.full_reads,
        // on failure the end was closed BEFORE the started commands were waited for (precondition of the wait), and nothing is parked
        r is Err ==> final(release_on_failure).is_none() && no_parked(final(w).s), //[C14]
        match r {
        Ok(v) => ({
//@include builder_popen_ok.inc
        }),
        Err(e) => ({
//@include builder_popen_err.inc
        }),
    }
//@loop 0
        invariant
            w.s.parked == old(w).s.parked, *release_on_failure == *old(release_on_failure), parked_within(w.s, *release_on_failure), w.s.full_reads == old(w).s.full_reads,
//@include builder_popen_loop0.inc
//@loop 1
        invariant
            // (order-agnostic: the caller's end may be released before or after the started commands' ends)
            parked_within(w.s, *release_on_failure), release_on_failure.is_none() || *release_on_failure == *old(release_on_failure), w.s.full_reads == old(w).s.full_reads,
//@include builder_popen_loop1.inc
//@end

//@fn pipeline::Pipeline::join vis=pub world=mut
//@rreplace 1 /v\.last_mut\(\)\.unwrap\(\)\.wait\(Tracked\(w\)\)/ => /{ let ghost b_ = old(w).s.stages.len() as int; let r_ = v.last_mut().unwrap().wait(Tracked(w)); let ghost v1_ = v@; drop_glue_vec_popen(v, Tracked(w)); proof { assert forall|j: int| b_ <= j < w.s.stages.len() && !(#[trigger] w.s.stages[j]).detached implies w.s.stages[j].reaped by { assert(reaped_or_detached(v1_[j - b_], w.s)); } } r_ }/
    requires
        no_parked(old(w).s),
        inh_ok(old(w).s, self.stderr_file), //[C08]
        self.stdin_data.is_none(), cmds_ok(self.cmds@, self.stderr_file.is_some()), !(self.stdin is Merge),
        old(w).s.stages.len() + self.cmds@.len() < 0xffff_ffff,
        // join() hands no pipe to anybody: asking for one would leave a child waiting on it
        !(self.stdin is Pipe) && !(self.stdout is Pipe), self.stderr_file.is_some() || forall|i: int| 0 <= i < self.cmds@.len() ==> !((#[trigger] self.cmds@[i]).config.stderr is Pipe),
    ensures
        // join returns only after all commands have exited (those not detached have been waited for)
        r is Ok ==> final(w).s.stages.len() == old(w).s.stages.len() + self.cmds@.len()
            && forall|j: int| old(w).s.stages.len() <= j < final(w).s.stages.len() ==> !(#[trigger] final(w).s.stages[j]).detached ==> final(w).s.stages[j].reaped, //[C12,C13]
        // ... and the last command is always waited for: its status is what join returns
        r is Ok ==> final(w).s.stages.last().reaped, //[C13]
//@end

//@fn pipeline::Pipeline::stream_stdout vis=pub world=mut
//@sreplace 1 /PopenResult<impl Read>/ => /PopenResult<ReadPipelineAdapter>/
    requires
        no_parked(old(w).s),
        inh_ok(old(w).s, self.stderr_file), //[C08]
        self.stdin_data.is_none(), cmds_ok(self.cmds@, self.stderr_file.is_some()), !(self.stdin is Merge),
        old(w).s.stages.len() + self.cmds@.len() < 0xffff_ffff,
    ensures
        r is Ok ==> r->Ok_0.0@.len() == self.cmds@.len() && all_stage_ok(r->Ok_0.0@, final(w).s) && r->Ok_0.0@.last().stdout.is_some(),
        // what the adapter's drop glue relies on, when no other pipe was asked for
        r is Ok && !(self.stdin is Pipe) && self.stderr_file.is_some() ==> forall|i: int| 0 <= i < r->Ok_0.0@.len() ==> (#[trigger] r->Ok_0.0@[i]).stdin.is_none() && r->Ok_0.0@[i].stderr.is_none() && (i < r->Ok_0.0@.len() - 1 ==> r->Ok_0.0@[i].stdout.is_none()),
//@end
//@fn pipeline::Pipeline::stream_stdin vis=pub world=mut
//@sreplace 1 /PopenResult<impl Write>/ => /PopenResult<WritePipelineAdapter>/
    requires
        no_parked(old(w).s),
        inh_ok(old(w).s, self.stderr_file), //[C08]
        self.stdin_data.is_none(), cmds_ok(self.cmds@, self.stderr_file.is_some()), 
        old(w).s.stages.len() + self.cmds@.len() < 0xffff_ffff,
    ensures
        r is Ok ==> r->Ok_0.0@.len() == self.cmds@.len() && all_stage_ok(r->Ok_0.0@, final(w).s) && r->Ok_0.0@[0].stdin.is_some(),
        r is Ok && !(self.stdout is Pipe) && self.stderr_file.is_some() ==> forall|i: int| 0 <= i < r->Ok_0.0@.len() ==> (#[trigger] r->Ok_0.0@[i]).stdout.is_none() && r->Ok_0.0@[i].stderr.is_none() && (i > 0 ==> r->Ok_0.0@[i].stdin.is_none()),
//@end

//@fn pipeline::Pipeline::setup_communicate world=mut
//@selfmut
// exit elaboration: if set_inheritable fails, `?` drops the two new pipe ends (closing them)
//@rreplace 1 /crate::popen::set_inheritable\(&err_read, false, Tracked\(w\)\)\?;/ => /match popen_m::set_inheritable(&err_read, false, Tracked(w)) { Ok(_) => {}, Err(e_) => { drop_glue_opt_file(Some(err_read), Tracked(w)); return Err(PopenError::from(e_)); } }/
//@rreplace + /crate::popen::/ => /popen_m::/
    requires
        no_inheritable(old(w).s), //[C08]
        cmds_ok(self.cmds@, true), self.stderr_file.is_none(), !(self.stdin is Merge), self.stdin_data.is_some() == (self.stdin is Pipe),
        old(w).s.stages.len() + self.cmds@.len() < 0xffff_ffff,
        no_parked(old(w).s), //[C12,C14]
    ensures
        final(w).s.full_reads == old(w).s.full_reads,
        // the Communicator holds the pipeline's pipe ends (stdin of the first, stdout of the last, the shared stderr pipe)
        r is Ok ==> final(w).s.parked =~= r->Ok_0.0.ends@, //[C12]
        // if the pipeline could not be started nothing is left behind, and nothing was waited for while a pipe end was still held
        r is Err ==> no_parked(final(w).s), //[C14]
        r is Ok ==> ({
            let v = r->Ok_0.1@; let b = old(w).s.stages.len() as int; let n = self.cmds@.len() as int; let s = final(w).s.stages;
            &&& v.len() == n && s.len() == b + n && all_stage_ok(v, final(w).s)
            // the communicator took every pipe end: nothing is left on the handles (C12 wait-safety of the later drops)
            &&& forall|i: int| 0 <= i < n ==> holds_no_pipe(#[trigger] v[i]) && running(v[i], b + i) && v[i].detached == self.cmds@[i].config.detached
            &&& forall|j: int| b <= j < b + n ==> (#[trigger] s[j]).detached == self.cmds@[j - b].config.detached && !s[j].reaped
            &&& r->Ok_0.0.out_piped@ && r->Ok_0.0.err_piped@
        }),
        // C08: the parent's read end of the stderr pipe is close-on-exec; the only inheritable end left is the write end the stages were given
        r is Ok ==> forall|o1: int, o2: int| final(w).s.inheritable.contains(o1) && final(w).s.inheritable.contains(o2) ==> o1 == o2, //[C08]
        r is Err ==> b_le(old(w).s.stages.len() as int, final(w).s.stages.len() as int)
            && forall|j: int| old(w).s.stages.len() <= j < final(w).s.stages.len() ==> !(#[trigger] final(w).s.stages[j]).detached ==> final(w).s.stages[j].reaped, //[C14]
//@end

//@fn pipeline::Pipeline::capture vis=pub world=mut
// exit elaboration (locals are dropped in reverse order of declaration: `v`, then `comm`):
//   shape A  `let (out, err) = comm.read()?;`                                      on Err: v is dropped (its commands waited for) while comm still holds the pipe ends
//   shape B  `let captured = comm.read(); drop(comm); let (out, err) = captured?;`  on Err: only v is left
//@rreplace 1 /let status = v\[vlen - 1\]\.wait\(Tracked\(w\)\)\?;/ => /let status = match v[vlen - 1].wait(Tracked(w)) { Ok(s_) => s_, Err(e_) => { drop_glue_vec_popen(v, Tracked(w)); return Err(e_); } }; let ghost b_ = old(w).s.stages.len() as int; let ghost v1_ = v@; drop_glue_vec_popen(v, Tracked(w)); proof { assert forall|j: int| b_ <= j < w.s.stages.len() && !(#[trigger] w.s.stages[j]).detached implies w.s.stages[j].reaped by { assert(reaped_or_detached(v1_[j - b_], w.s)); } }/
//@rreplace ? /let \(out, err\) = comm\.read\(Tracked\(w\)\)\?;/ => /let (out, err) = match comm.read(Tracked(w)) { Ok(x_) => x_, Err(e_) => { let ghost b_ = old(w).s.stages.len() as int; let ghost v1_ = v@; drop_glue_vec_popen(v, Tracked(w)); proof { assert forall|j: int| b_ <= j < w.s.stages.len() && !(#[trigger] w.s.stages[j]).detached implies w.s.stages[j].reaped by { assert(reaped_or_detached(v1_[j - b_], w.s)); } } drop_glue_communicator(comm, Tracked(w)); return Err(PopenError::from(e_)); } };/
//@rreplace ? /drop\(comm\);/ => /drop_glue_communicator(comm, Tracked(w));/
//@rreplace ? /let \(out, err\) = captured\?;/ => /let (out, err) = match captured { Ok(x_) => x_, Err(e_) => { let ghost b_ = old(w).s.stages.len() as int; let ghost v1_ = v@; drop_glue_vec_popen(v, Tracked(w)); proof { assert forall|j: int| b_ <= j < w.s.stages.len() && !(#[trigger] w.s.stages[j]).detached implies w.s.stages[j].reaped by { assert(reaped_or_detached(v1_[j - b_], w.s)); } } return Err(PopenError::from(e_)); } };/
//@forbid /comm\.read\(Tracked\(w\)\)\?/
//@forbid /captured\?/
//@forbid /\breturn\s+(?!Err\((e_|PopenError::from\(e_\))\);)/
    requires
        no_inheritable(old(w).s), //[C08]
        no_parked(old(w).s), //[C12,C14]
        cmds_ok(self.cmds@, true), self.stderr_file.is_none(), !(self.stdin is Merge), self.stdin_data.is_some() == (self.stdin is Pipe),
        old(w).s.stages.len() + self.cmds@.len() < 0xffff_ffff,
    ensures
        // capture returns the last command's status, and only after all commands have been waited for; on every path nothing is left unreaped
        final(w).s.stages.len() >= old(w).s.stages.len(),
        forall|j: int| old(w).s.stages.len() <= j < final(w).s.stages.len() ==> !(#[trigger] final(w).s.stages[j]).detached ==> final(w).s.stages[j].reaped, //[C12,C13,C14]
        r is Ok ==> final(w).s.stages.len() == old(w).s.stages.len() + self.cmds@.len() && final(w).s.stages.last().reaped, //[C13]
        // what capture returns as Ok is the outcome of an exchange that ran to completion: no line of any stage's output is missing
        r is Ok ==> final(w).s.full_reads == old(w).s.full_reads + 1, //[C02,C13]
//@end
}
pub open spec fn b_le(a: int, b: int) -> bool { a <= b }

// composition: however a pipeline is put together, its stage sequence is the concatenation of the operands' stages (C13)
impl Exec {
//@fn exec::impl(BitOr+for+Exec)::bitor vis=pub
    ensures r.cmds@ == seq![self, rhs], r.stdin is None, r.stdout is None, r.stderr_file.is_none(), r.stdin_data.is_none(), //[C13]
//@end
}
impl Pipeline {
//@fn pipeline::impl(BitOr<Exec>+for+Pipeline)::bitor vis=pub rename=bitor_exec
//@selfmut
    ensures r.cmds@ == self.cmds@.push(rhs), r.stdin == self.stdin, r.stdout == self.stdout, r.stderr_file == self.stderr_file, r.stdin_data == self.stdin_data, //[C13]
//@end
//@fn pipeline::impl(BitOr+for+Pipeline)::bitor vis=pub rename=bitor_pipeline
//@selfmut
//@rreplace 1 /this\.cmds\.extend\(rhs\.cmds\);/ => /let mut rhs = rhs; this.cmds.append(&mut rhs.cmds);/
    // R6: Vec::extend(Vec) = append
    ensures r.cmds@ == self.cmds@ + rhs.cmds@, r.stdin == self.stdin, r.stdout == rhs.stdout, r.stderr_file == self.stderr_file, r.stdin_data == self.stdin_data, //[C13]
//@end
//@fn pipeline::Pipeline::communicate vis=pub world=mut
//@selfmut
//@rreplace 1 /this\.cmds\.into_iter\(\)\.map\(\|cmd\| cmd\.detached\(\)\)\.collect\(\)/ => /map_detached(this.cmds)/
//@rreplace 1 /Ok\(comm\)/ => /proof { hand_over(w, comm.ends@); } Ok(comm)/
    requires
        no_inheritable(old(w).s), //[C08]
        no_parked(old(w).s),
        cmds_ok(self.cmds@, true), self.stderr_file.is_none(), !(self.stdin is Merge), self.stdin_data.is_some() == (self.stdin is Pipe),
        old(w).s.stages.len() + self.cmds@.len() < 0xffff_ffff,
    ensures
        no_parked(final(w).s),
        // communicate() hands the children over to the caller's Communicator: all of them are detached, none is waited for here
        r is Ok ==> final(w).s.stages.len() == old(w).s.stages.len() + self.cmds@.len()
            && forall|j: int| old(w).s.stages.len() <= j < final(w).s.stages.len() ==> (#[trigger] final(w).s.stages[j]).detached,
//@end
}
} // verus!
fn main() {}
