//@unit builder
//@include models/buildw.rs
//@thread Popen::create .popen .wait .drop_impl drop_glue_popen drop_glue_vec_popen .setup_communicate .join .capture .stream_stdout .stream_stderr .stream_stdin

//@source src/popen.rs
use std::result;
//@enum PopenError
//@item Result
pub use self::Result as PopenResult;
pub mod os {
//@item os[unix]::ExtChildState
}
//@enum ChildState
use ChildState::*;
//@struct Popen pubfields
//@enum Redirection
//@struct PopenConfig
//@include models/buildw_shims2.rs
use vstd::std_specs::convert::*;

//@source src/builder.rs
//@enum exec::InputRedirection
//@struct exec::OutputRedirection pubfields
// the From conversions of builder.rs (their bodies are one-liners; the Merge panic of From<Redirection> for InputRedirection is
// checked by a Kani should_panic harness)
impl FromSpecImpl<Redirection> for InputRedirection {
    open spec fn obeys_from_spec() -> bool { true }
    open spec fn from_spec(r: Redirection) -> Self { InputRedirection::AsRedirection(r) }
}
impl From<Redirection> for InputRedirection { #[verifier::external_body] fn from(r: Redirection) -> (res: Self) { unimplemented!() } }
impl FromSpecImpl<File> for InputRedirection {
    open spec fn obeys_from_spec() -> bool { true }
    open spec fn from_spec(f: File) -> Self { InputRedirection::AsRedirection(Redirection::File(f)) }
}
impl From<File> for InputRedirection {
//@fn exec::impl(From<File>+for+InputRedirection)::from
//@end
}
impl FromSpecImpl<Vec<u8>> for InputRedirection {
    open spec fn obeys_from_spec() -> bool { true }
    open spec fn from_spec(v: Vec<u8>) -> Self { InputRedirection::FeedData(v) }
}
impl From<Vec<u8>> for InputRedirection {
//@fn exec::impl(From<Vec<u8>>+for+InputRedirection)::from
//@end
}
impl FromSpecImpl<Redirection> for OutputRedirection {
    open spec fn obeys_from_spec() -> bool { true }
    open spec fn from_spec(r: Redirection) -> Self { OutputRedirection(r) }
}
impl From<Redirection> for OutputRedirection {
//@fn exec::impl(From<Redirection>+for+OutputRedirection)::from ret=res
//@end
}
impl FromSpecImpl<File> for OutputRedirection {
    open spec fn obeys_from_spec() -> bool { true }
    open spec fn from_spec(f: File) -> Self { OutputRedirection(Redirection::File(f)) }
}
impl From<File> for OutputRedirection {
//@fn exec::impl(From<File>+for+OutputRedirection)::from
//@end
}
impl OutputRedirection {
//@fn exec::OutputRedirection::into_redirection vis=pub
    ensures r == self.0
//@end
}

//@struct exec::Exec pubfields
//@struct exec::CaptureData pubfields

// ---------------------------------------------------------------- C16: the plain command description an Exec stands for
pub open spec fn in_ok<T: Into<InputRedirection>>(cur: Redirection, new: T) -> bool {
    // the documented accepting cases of Exec::stdin: first setting, or Pipe repeated
    &&& <T as IntoSpec<_>>::obeys_into_spec()
    &&& ((cur is None) || (cur is Pipe && IntoSpec::into_spec(new) == InputRedirection::AsRedirection(Redirection::Pipe)))
}
pub open spec fn out_ok<T: Into<OutputRedirection>>(cur: Redirection, new: T) -> bool {
    &&& <T as IntoSpec<_>>::obeys_into_spec()
    &&& ((cur is None) || (cur is Pipe && IntoSpec::into_spec(new).0 is Pipe))
}

impl Exec {
//@fn exec::Exec::detached vis=pub
//@selfmut
    ensures r.config.detached, r.command == self.command, r.args == self.args, r.stdin_data == self.stdin_data,
        r.config.stdin == self.config.stdin && r.config.stdout == self.config.stdout && r.config.stderr == self.config.stderr && r.config.env == self.config.env && r.config.cwd == self.config.cwd,
//@end

//@fn exec::Exec::stdin vis=pub
//@selfmut
//@sreplace 1 /pub fn stdin\(/ => /pub fn stdin<T: Into<InputRedirection>>(/
//@sreplace 1 /stdin: impl Into<InputRedirection>/ => /stdin: T/
    requires in_ok(self.config.stdin, stdin), //[C16]
    ensures
        r.command == self.command, r.args == self.args, r.config.detached == self.config.detached,
        r.config.stdout == self.config.stdout && r.config.stderr == self.config.stderr && r.config.env == self.config.env && r.config.cwd == self.config.cwd,
        match IntoSpec::into_spec(stdin) {
            InputRedirection::AsRedirection(new) => r.stdin_data == self.stdin_data && r.config.stdin == (if self.config.stdin is None { new } else { self.config.stdin }),
            InputRedirection::FeedData(data) => r.config.stdin is Pipe && r.stdin_data == Some(data),
        }, //[C16]
//@end

//@fn exec::Exec::stdout vis=pub
//@selfmut
//@sreplace 1 /pub fn stdout\(/ => /pub fn stdout<T: Into<OutputRedirection>>(/
//@sreplace 1 /stdout: impl Into<OutputRedirection>/ => /stdout: T/
    requires out_ok(self.config.stdout, stdout), //[C16]
    ensures
        r.command == self.command, r.args == self.args, r.config.detached == self.config.detached, r.stdin_data == self.stdin_data,
        r.config.stdin == self.config.stdin && r.config.stderr == self.config.stderr && r.config.env == self.config.env && r.config.cwd == self.config.cwd,
        r.config.stdout == (if self.config.stdout is None { IntoSpec::into_spec(stdout).0 } else { self.config.stdout }), //[C16]
//@end

//@fn exec::Exec::stderr vis=pub
//@selfmut
//@sreplace 1 /pub fn stderr\(/ => /pub fn stderr<T: Into<OutputRedirection>>(/
//@sreplace 1 /stderr: impl Into<OutputRedirection>/ => /stderr: T/
    requires out_ok(self.config.stderr, stderr), //[C16]
    ensures
        r.command == self.command, r.args == self.args, r.config.detached == self.config.detached, r.stdin_data == self.stdin_data,
        r.config.stdin == self.config.stdin && r.config.stdout == self.config.stdout && r.config.env == self.config.env && r.config.cwd == self.config.cwd,
        r.config.stderr == (if self.config.stderr is None { IntoSpec::into_spec(stderr).0 } else { self.config.stderr }), //[C16]
//@end

//@fn exec::Exec::check_no_stdin_data
    requires self.stdin_data.is_none(), //[C16]
//@end

//@fn exec::Exec::popen vis=pub world=mut
//@selfmut
    requires self.stdin_data.is_none(), old(w).s.stages.len() < 0xffff_ffff, //[C16]
    ensures match r {
        Ok(p) => {
            // the command run is the builder's command followed by the arguments in the order they were added
            &&& final(w).s == (BW { stages: old(w).s.stages.push(stage_of(self.args@.insert(0, self.command), self.config, p)), ..old(w).s }) //[C16,C13]
            &&& running(p, old(w).s.stages.len() as int) && p.detached == self.config.detached
            &&& p.stdin.is_some() == (self.config.stdin is Pipe) && p.stdout.is_some() == (self.config.stdout is Pipe) && p.stderr.is_some() == (self.config.stderr is Pipe)
        },
        Err(e) => final(w).s == old(w).s,
    }
//@end

//@fn exec::Exec::join vis=pub world=mut
    requires self.stdin_data.is_none(), old(w).s.stages.len() < 0xffff_ffff, //[C16]
    ensures
        r is Ok ==> final(w).s.stages.len() == old(w).s.stages.len() + 1 && final(w).s.stages.last().reaped, //[C12]
        r is Err ==> final(w).s == old(w).s,
//@end

//@fn exec::Exec::stream_stdout vis=pub world=mut
//@sreplace 1 /PopenResult<impl Read>/ => /PopenResult<ReadOutAdapter>/
    requires self.stdin_data.is_none(), old(w).s.stages.len() < 0xffff_ffff, self.config.stdout is None || self.config.stdout is Pipe, //[C16]
    ensures
        r is Ok ==> stage_ok(r->Ok_0.0, final(w).s) && r->Ok_0.0.stdout.is_some() && (self.config.stdin is None && self.config.stderr is None ==> r->Ok_0.0.stdin.is_none() && r->Ok_0.0.stderr.is_none()),
        r is Ok ==> final(w).s.stages.len() == old(w).s.stages.len() + 1,
        r is Err ==> final(w).s == old(w).s,
//@end
//@fn exec::Exec::stream_stderr vis=pub world=mut
//@sreplace 1 /PopenResult<impl Read>/ => /PopenResult<ReadErrAdapter>/
    requires self.stdin_data.is_none(), old(w).s.stages.len() < 0xffff_ffff, self.config.stderr is None || self.config.stderr is Pipe, //[C16]
    ensures
        r is Ok ==> stage_ok(r->Ok_0.0, final(w).s) && r->Ok_0.0.stderr.is_some() && (self.config.stdin is None && self.config.stdout is None ==> r->Ok_0.0.stdin.is_none() && r->Ok_0.0.stdout.is_none()),
        r is Err ==> final(w).s == old(w).s,
//@end
//@fn exec::Exec::stream_stdin vis=pub world=mut
//@sreplace 1 /PopenResult<impl Write>/ => /PopenResult<WriteAdapter>/
    requires self.stdin_data.is_none(), old(w).s.stages.len() < 0xffff_ffff, self.config.stdin is None || self.config.stdin is Pipe, //[C16]
    ensures
        r is Ok ==> stage_ok(r->Ok_0.0, final(w).s) && r->Ok_0.0.stdin.is_some() && (self.config.stdout is None && self.config.stderr is None ==> r->Ok_0.0.stdout.is_none() && r->Ok_0.0.stderr.is_none()),
        r is Err ==> final(w).s == old(w).s,
//@end

//@fn exec::Exec::setup_communicate world=mut
//@selfmut
    requires old(w).s.stages.len() < 0xffff_ffff,
        // input data was given exactly when stdin is a pipe (Exec::stdin arranges that; otherwise communicate_start panics as documented)
        self.stdin_data.is_some() == (self.config.stdin is Pipe),
    ensures
        r is Ok ==> stage_ok(r->Ok_0.1, final(w).s) && holds_no_pipe(r->Ok_0.1) && final(w).s.stages.len() == old(w).s.stages.len() + 1
            && r->Ok_0.1.detached == self.config.detached && r->Ok_0.1.child_state is Running && r->Ok_0.1.child_state->pid as int == old(w).s.stages.len()
            && final(w).s.stages.last().reaped == false && final(w).s.stages.last().detached == self.config.detached && final(w).s.stages.subrange(0, old(w).s.stages.len() as int) == old(w).s.stages,
        // an Exec with neither output configured gets its stdout piped, so capture() has something to read
        r is Ok ==> (self.config.stdout is None && self.config.stderr is None ==> r->Ok_0.0.out_piped@),
        r is Ok ==> r->Ok_0.0.out_piped@ == (self.config.stdout is Pipe || (self.config.stdout is None && self.config.stderr is None)) && r->Ok_0.0.err_piped@ == (self.config.stderr is Pipe),
        r is Err ==> final(w).s == old(w).s,
//@end

//@fn exec::Exec::communicate vis=pub world=mut
    requires old(w).s.stages.len() < 0xffff_ffff, self.stdin_data.is_some() == (self.config.stdin is Pipe),
    ensures r is Err ==> final(w).s == old(w).s,
        r is Ok ==> final(w).s.stages.len() == old(w).s.stages.len() + 1 && final(w).s.stages.last().detached,
//@end

//@fn exec::Exec::capture vis=pub world=mut
    requires old(w).s.stages.len() < 0xffff_ffff, self.stdin_data.is_some() == (self.config.stdin is Pipe),
    ensures
        // capture returns only after the child has been waited for
        r is Ok ==> final(w).s.stages.len() == old(w).s.stages.len() + 1 && final(w).s.stages.last().reaped, //[C12]
//@end
}

//@struct exec::ReadOutAdapter pubfields
//@struct exec::ReadErrAdapter pubfields
//@struct exec::WriteAdapter pubfields
impl ReadOutAdapter {
//@fn exec::impl(Drop+for+ReadOutAdapter)::drop optional rename=drop_impl
    // the caller can release the read end in no other way: it must be closed before the Popen's drop waits
    ensures final(self).0.stdout.is_none(), final(self).0.stdin == old(self).0.stdin, final(self).0.stderr == old(self).0.stderr, final(self).0.child_state == old(self).0.child_state, final(self).0.detached == old(self).0.detached, //[C12]
//@end
}
impl ReadErrAdapter {
//@fn exec::impl(Drop+for+ReadErrAdapter)::drop optional rename=drop_impl
    ensures final(self).0.stderr.is_none(), final(self).0.stdin == old(self).0.stdin, final(self).0.stdout == old(self).0.stdout, final(self).0.child_state == old(self).0.child_state, final(self).0.detached == old(self).0.detached, //[C12]
//@end
}
impl WriteAdapter {
//@fn exec::impl(Drop+for+WriteAdapter)::drop optional rename=drop_impl
    ensures final(self).0.stdin.is_none(), final(self).0.stdout == old(self).0.stdout, final(self).0.stderr == old(self).0.stderr, final(self).0.child_state == old(self).0.child_state, final(self).0.detached == old(self).0.detached, //[C12]
//@end
}
//@include models/buildw_glue.rs
} // verus!
fn main() {}
