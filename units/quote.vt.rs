//@unit quote
//@include models/quotew.rs
//@source src/builder.rs
//@fn exec::Exec::display_escape vis=pub
//@sreplace 1 /Cow<'_, str>/ => /Cow<'_>/
//@rreplace ? /s\.is_empty\(\)/ => /str_is_empty(s)/
//@rreplace 1 /s\.chars\(\)\.all\(nice_char\)/ => /str_all(s, nice_char)/
//@rreplace 1 /format!\("'\{\}'", s\.replace\("'", r#"'\\''"#\)\)/ => /fmt_squote_replaced(s)/
    ensures
        // the result is one shell word that evaluates to exactly s -- the empty string included
        shell_word_for(cow_view(r), s@), //[C19]
//@nested nice_char
//@rreplace 1 /c if c\.is_ascii_alphanumeric\(\) => true,/ => /c if is_ascii_alphanumeric(c) => true,/
        ensures r == nice(c), //[C19]
//@endnested
//@end
} // verus!
fn main() {}
