//@unit quote
//@include models/quotew.rs
//@source src/builder.rs
//@struct exec::Exec pubfields
impl Exec {
//@fn exec::Exec::display_escape vis=pub
//@sreplace 1 /Cow<'_, str>/ => /Cow<'_>/
//@rreplace ? /s\.is_empty\(\)/ => /str_is_empty(s)/
//@rreplace 1 /s\.chars\(\)\.all\(nice_char\)/ => /str_all(s, nice_char)/
//@rreplace 1 /format!\("'\{\}'", s\.replace\("'", r#"'\\''"#\)\)/ => /fmt_squote_replaced(s)/
    ensures
        // the result is one shell word that evaluates to exactly s -- the empty string included
        shell_word_for(cow_view(r), s@), //[C19]
        // and it is the bare string when that is safe, the single-quoted form otherwise
        cow_view(r) == quote_of(s@), //[C19]
//@nested nice_char
//@rreplace 1 /c if c\.is_ascii_alphanumeric\(\) => true,/ => /c if is_ascii_alphanumeric(c) => true,/
        ensures r == nice(c), //[C19]
//@endnested
//@end

//@fn exec::Exec::to_cmdline_lossy vis=pub
//@attr #[verifier::loop_isolation(false)]
//@rreplace 1 /env::vars_os\(\)\.collect\(\)/ => /env_vars_os_vec()/
//@rreplace 1 /current\.iter\(\)\.map\(\|\(x, y\)\| \(x, y\)\)\.collect\(\)/ => /ref_map(&current)/
//@rreplace 1 /for \(k, v\) in cmd_env/ => /let mut it1_ = pairs_iter(cmd_env); loop/
//@rreplace 1 /if current_map\.get\(&k\) == Some\(&v\) \{/ => /let (k, v) = match it1_.next() { Some(p_) => p_, None => break }; if map_has(&current_map, k, v) {/
//@rreplace 1 /cmd_env\.iter\(\)\.map\(\|\(k, v\)\| \(k, v\)\)\.collect\(\)/ => /ref_map(cmd_env)/
//@rreplace 1 /for \(k, _\) in current/ => /let mut it2_ = into_pairs_iter(current); loop/
//@rreplace 1 /if !cmd_env\.contains_key\(&k\) \{/ => /let (k, _) = match it2_.next() { Some(p_) => p_, None => break }; if !cmd_env.contains_key(&k) {/
//@rreplace + /&Exec::display_escape\(&([\w.]+)\.to_string_lossy\(\)\)/ => /cow_str(&Exec::display_escape(cow_str(&\1.to_string_lossy())))/
//@rreplace 1 /for arg in &self\.args/ => /for arg in it: &self.args/
    ensures
        // the text is: the environment prefix, the quoted program, and every argument preceded by one blank and quoted -- in order,
        // nothing else; with the postcondition of display_escape each word evaluates, in sh, to exactly the string it stands for
        r@ =~= env_text(self.config.env) + quote_of(self.command.lossy()) + args_text(self.args@), //[C19]
//@loop 0
        invariant self.config.env.is_some(), it1_.all@ == self.config.env->Some_0@, it1_.pos@ <= it1_.all@.len(), current_map.src() == process_env(),
            out@ =~= env_set_n(it1_.all@, process_env(), it1_.pos@ as int),
        decreases it1_.all@.len() - it1_.pos@,
//@loop 1
        invariant self.config.env.is_some(), it2_.all@ == process_env(), it2_.pos@ <= it2_.all@.len(), cmd_env.src() == self.config.env->Some_0@,
            out@ =~= env_set_n(cmd_env.src(), process_env(), cmd_env.src().len() as int) + env_unset_n(cmd_env.src(), process_env(), it2_.pos@ as int),
        decreases it2_.all@.len() - it2_.pos@,
//@loop 2
        invariant out@ =~= env_text(self.config.env) + quote_of(self.command.lossy()) + args_text_n(self.args@, it.index@ as int),
//@end

//@fn exec::impl(fmt::Debug+for+Exec)::fmt vis=pub rename=debug_fmt
//@rreplace 1 /write!\(f, "Exec \{\{ \{\} \}\}", self\.to_cmdline_lossy\(\)\)/ => /write_braced(f, "Exec", self.to_cmdline_lossy().as_str())/
    ensures r is Ok ==> final(f).out@ =~= old(f).out@ + braced("Exec"@, cmdline_text(*self)), //[C19]
//@end
}
impl Pipeline {
//@fn pipeline::impl(fmt::Debug+for+Pipeline)::fmt vis=pub rename=debug_fmt
//@rreplace 1 /vec!\[\]/ => /Vec::<String>::new()/
//@rreplace 1 /for cmd in &self\.cmds/ => /for cmd in it: &self.cmds/
//@rreplace 1 /write!\(f, "Pipeline \{\{ \{\} \}\}", args\.join\(" \| "\)\)/ => /proof { assert(views_of(args@) =~= texts_of(self.cmds@)); } write_braced(f, "Pipeline", join_strings(&args, " | ").as_str())/
    ensures
        // the stages appear in order, each as its own command line, joined by the separator " | "
        r is Ok ==> final(f).out@ =~= old(f).out@ + braced("Pipeline"@, join_n(texts_of(self.cmds@), " | "@, self.cmds@.len() as int)), //[C19]
//@loop 0
        invariant args@.len() == it.index@, forall|j: int| 0 <= j < args@.len() ==> (#[trigger] args@[j])@ == cmdline_text(self.cmds@[j]),
//@end
}
} // verus!
fn main() {}
