// Windows command lines (C20): the Microsoft C runtime rules (2008 and later; the same as CommandLineToArgvW for every argument after
// the program name) as a recursive spec function, what the library is to produce as spec functions, and the PROVED lemmas that connect
// them.  Nothing in this file is assumed: every `proof fn` is checked by Verus on every run.  TRUSTED: that `parse_arg`/`parse_all`
// transcribe Microsoft's rules ("Parsing C command-line arguments", "Everyone quotes command line arguments the wrong way"): 2n
// backslashes + quote -> n backslashes and a delimiter; 2n+1 backslashes + quote -> n backslashes and a literal quote; backslashes
// not followed by a quote are literal; "" inside a quoted part -> a literal quote; space and tab separate arguments outside quotes.
// The same rules, as an executable oracle, are what the bounded native check (units/native/wincmd.nt.rs) runs.
use vstd::prelude::*;
verus! {
pub spec const SP: u16 = 0x20;
pub spec const TAB: u16 = 0x09;
pub spec const NL: u16 = 0x0a;
pub spec const VT: u16 = 0x0b;
pub spec const QUOTE: u16 = 0x22;
pub spec const BS: u16 = 0x5c;

pub open spec fn is_ws(c: u16) -> bool { c == SP || c == TAB }

pub open spec fn rep(c: u16, n: nat) -> Seq<u16> { Seq::new(n, |i: int| c) }

/// length of the run of backslashes that starts at `i`
pub open spec fn bs_run(s: Seq<u16>, i: int) -> nat
    decreases s.len() - i,
{
    if 0 <= i < s.len() && s[i] == BS { 1 + bs_run(s, i + 1) } else { 0 }
}

// ------------------------------------------------------------------ the Microsoft rules (2008 and later), one argument
/// Parses one argument starting at `i`; returns the argument and the index of the first unconsumed unit.
pub open spec fn parse_arg(cmd: Seq<u16>, i: int, in_q: bool, cur: Seq<u16>) -> (Seq<u16>, int)
    decreases cmd.len() - i via parse_arg_terminates
{
    if i < 0 || i >= cmd.len() {
        (cur, i)
    } else if !in_q && is_ws(cmd[i]) {
        (cur, i)
    } else if cmd[i] == BS {
        let k = bs_run(cmd, i);
        let j = i + k;
        if j < cmd.len() && cmd[j] == QUOTE {
            if k % 2 == 1 {
                // 2n+1 backslashes and a quote: n backslashes and a literal quote
                parse_arg(cmd, j + 1, in_q, cur + rep(BS, k / 2) + seq![QUOTE])
            } else {
                // 2n backslashes and a quote: n backslashes, the quote is a delimiter
                parse_arg(cmd, j, in_q, cur + rep(BS, k / 2))
            }
        } else {
            // backslashes not followed by a quote are literal
            parse_arg(cmd, j, in_q, cur + rep(BS, k))
        }
    } else if cmd[i] == QUOTE {
        if in_q && i + 1 < cmd.len() && cmd[i + 1] == QUOTE {
            // "" inside a quoted part: a literal quote, still quoted
            parse_arg(cmd, i + 2, in_q, cur.push(QUOTE))
        } else {
            parse_arg(cmd, i + 1, !in_q, cur)
        }
    } else {
        parse_arg(cmd, i + 1, in_q, cur.push(cmd[i]))
    }
}

#[via_fn]
proof fn parse_arg_terminates(cmd: Seq<u16>, i: int, in_q: bool, cur: Seq<u16>) {
    if 0 <= i < cmd.len() { lemma_bs_run_bounds(cmd, i); }
}

/// an argument that starts inside the string consumes at least one unit and stays inside the string
pub proof fn lemma_parse_arg_advances(cmd: Seq<u16>, i: int, in_q: bool, cur: Seq<u16>)
    requires 0 <= i < cmd.len(), in_q || !is_ws(cmd[i]),
    ensures i < parse_arg(cmd, i, in_q, cur).1 <= cmd.len(),
    decreases cmd.len() - i,
{
    lemma_bs_run_bounds(cmd, i);
    if cmd[i] == BS {
        let k = bs_run(cmd, i);
        let j = i + k;
        if j < cmd.len() && cmd[j] == QUOTE {
            if k % 2 == 1 { lemma_parse_arg_inside(cmd, j + 1, in_q, cur + rep(BS, k / 2) + seq![QUOTE]); }
            else { lemma_parse_arg_inside(cmd, j, in_q, cur + rep(BS, k / 2)); }
        } else { lemma_parse_arg_inside(cmd, j, in_q, cur + rep(BS, k)); }
    } else if cmd[i] == QUOTE {
        if in_q && i + 1 < cmd.len() && cmd[i + 1] == QUOTE { lemma_parse_arg_inside(cmd, i + 2, in_q, cur.push(QUOTE)); }
        else { lemma_parse_arg_inside(cmd, i + 1, !in_q, cur); }
    } else { lemma_parse_arg_inside(cmd, i + 1, in_q, cur.push(cmd[i])); }
}

pub proof fn lemma_parse_arg_inside(cmd: Seq<u16>, i: int, in_q: bool, cur: Seq<u16>)
    requires 0 <= i <= cmd.len(),
    ensures i <= parse_arg(cmd, i, in_q, cur).1 <= cmd.len(),
    decreases cmd.len() - i,
{
    if i < cmd.len() && !(!in_q && is_ws(cmd[i])) {
        lemma_bs_run_bounds(cmd, i);
        if cmd[i] == BS {
            let k = bs_run(cmd, i);
            let j = i + k;
            if j < cmd.len() && cmd[j] == QUOTE {
                if k % 2 == 1 { lemma_parse_arg_inside(cmd, j + 1, in_q, cur + rep(BS, k / 2) + seq![QUOTE]); }
                else { lemma_parse_arg_inside(cmd, j, in_q, cur + rep(BS, k / 2)); }
            } else { lemma_parse_arg_inside(cmd, j, in_q, cur + rep(BS, k)); }
        } else if cmd[i] == QUOTE {
            if in_q && i + 1 < cmd.len() && cmd[i + 1] == QUOTE { lemma_parse_arg_inside(cmd, i + 2, in_q, cur.push(QUOTE)); }
            else { lemma_parse_arg_inside(cmd, i + 1, !in_q, cur); }
        } else { lemma_parse_arg_inside(cmd, i + 1, in_q, cur.push(cmd[i])); }
    }
}

pub proof fn lemma_skip_ws(cmd: Seq<u16>, i: int)
    requires 0 <= i <= cmd.len(),
    ensures i <= skip_ws(cmd, i) <= cmd.len(), skip_ws(cmd, i) < cmd.len() ==> !is_ws(cmd[skip_ws(cmd, i)]),
    decreases cmd.len() - i,
{
    if i < cmd.len() && is_ws(cmd[i]) { lemma_skip_ws(cmd, i + 1); }
}

pub open spec fn skip_ws(cmd: Seq<u16>, i: int) -> int
    decreases cmd.len() - i,
{
    if 0 <= i < cmd.len() && is_ws(cmd[i]) { skip_ws(cmd, i + 1) } else { i }
}

/// All arguments of the command line from `i` on, appended to `acc`.
pub open spec fn parse_all(cmd: Seq<u16>, i: int, acc: Seq<Seq<u16>>) -> Seq<Seq<u16>>
    decreases cmd.len() - i via parse_all_terminates
{
    let j = skip_ws(cmd, i);
    if i < 0 || j >= cmd.len() {
        acc
    } else {
        let r = parse_arg(cmd, j, false, Seq::<u16>::empty());
        parse_all(cmd, r.1, acc.push(r.0))
    }
}

#[via_fn]
proof fn parse_all_terminates(cmd: Seq<u16>, i: int, acc: Seq<Seq<u16>>) {
    if 0 <= i <= cmd.len() {
        lemma_skip_ws(cmd, i);
        let j = skip_ws(cmd, i);
        if j < cmd.len() { lemma_parse_arg_advances(cmd, j, false, Seq::<u16>::empty()); }
    }
}

// ------------------------------------------------------------------ what the library is to produce
pub open spec fn special(c: u16) -> bool { c == SP || c == TAB || c == NL || c == VT || c == QUOTE }

pub open spec fn needs_quotes(arg: Seq<u16>) -> bool {
    arg.len() == 0 || exists|i: int| 0 <= i < arg.len() && special(#[trigger] arg[i])
}

/// the inside of the quoted form of arg[p..]
pub open spec fn body(arg: Seq<u16>, p: int) -> Seq<u16>
    decreases arg.len() - p,
{
    if p < 0 || p >= arg.len() {
        Seq::<u16>::empty()
    } else {
        let k = bs_run(arg, p);
        let j = p + k;
        if j >= arg.len() {
            rep(BS, 2 * k)
        } else if arg[j] == QUOTE {
            rep(BS, 2 * k + 1) + seq![QUOTE] + body(arg, j + 1)
        } else {
            rep(BS, k) + seq![arg[j]] + body(arg, j + 1)
        }
    }
}

pub open spec fn quoted(arg: Seq<u16>) -> Seq<u16> {
    if needs_quotes(arg) { seq![QUOTE] + body(arg, 0) + seq![QUOTE] } else { arg }
}

/// the command line for argv[k..]
pub open spec fn join_from(argv: Seq<Seq<u16>>, k: int) -> Seq<u16> { join_range(argv, k, argv.len() as int) }

/// the command line for argv[k..n]
pub open spec fn join_range(argv: Seq<Seq<u16>>, k: int, n: int) -> Seq<u16>
    decreases n - k,
{
    if k < 0 || k >= n { Seq::<u16>::empty() }
    else if k == n - 1 { quoted(argv[k]) }
    else { quoted(argv[k]) + seq![SP] + join_range(argv, k + 1, n) }
}

/// the command line for argv[..n], built the way the library builds it: argument by argument, left to right
pub open spec fn join_to(argv: Seq<Seq<u16>>, n: int) -> Seq<u16>
    decreases n,
{
    if n <= 0 { Seq::<u16>::empty() }
    else if n == 1 { quoted(argv[0]) }
    else { join_to(argv, n - 1) + seq![SP] + quoted(argv[n - 1]) }
}

pub proof fn lemma_join_range_snoc(argv: Seq<Seq<u16>>, k: int, n: int)
    requires 0 <= k < n,
    ensures join_range(argv, k, n + 1) == join_range(argv, k, n) + seq![SP] + quoted(argv[n]),
    decreases n - k,
{
    if k == n - 1 {
        assert(join_range(argv, k + 1, n + 1) == quoted(argv[n]));
    } else {
        lemma_join_range_snoc(argv, k + 1, n);
        assert(quoted(argv[k]) + seq![SP] + (join_range(argv, k + 1, n) + seq![SP] + quoted(argv[n]))
            =~= quoted(argv[k]) + seq![SP] + join_range(argv, k + 1, n) + seq![SP] + quoted(argv[n]));
    }
}

pub proof fn lemma_join_to_is_range(argv: Seq<Seq<u16>>, n: int)
    requires 0 <= n,
    ensures join_to(argv, n) == join_range(argv, 0, n),
    decreases n,
{
    if n >= 2 {
        lemma_join_to_is_range(argv, n - 1);
        lemma_join_range_snoc(argv, 0, n - 1);
    }
}

// ------------------------------------------------------------------ lemmas
pub proof fn lemma_bs_run_bounds(s: Seq<u16>, i: int)
    requires 0 <= i <= s.len(),
    ensures
        i + bs_run(s, i) <= s.len(),
        forall|x: int| i <= x < i + bs_run(s, i) ==> s[x] == BS,
        i + bs_run(s, i) < s.len() ==> s[i + bs_run(s, i) as int] != BS,
    decreases s.len() - i,
{
    if i < s.len() && s[i] == BS { lemma_bs_run_bounds(s, i + 1); }
}

/// a stretch of exactly n backslashes at i, followed by something else, is a run of n
pub proof fn lemma_bs_run_exact(s: Seq<u16>, i: int, n: nat)
    requires
        0 <= i, i + n <= s.len(),
        forall|x: int| i <= x < i + n ==> s[x] == BS,
        i + n == s.len() || s[i + n] != BS,
    ensures bs_run(s, i) == n,
    decreases n,
{
    if n > 0 { lemma_bs_run_exact(s, i + 1, (n - 1) as nat); }
}

/// `x` occurs in `cmd` at `i`
pub open spec fn at(cmd: Seq<u16>, i: int, x: Seq<u16>) -> bool {
    0 <= i && i + x.len() <= cmd.len() && forall|t: int| 0 <= t < x.len() ==> cmd[i + t] == #[trigger] x[t]
}

pub proof fn lemma_at_concat(cmd: Seq<u16>, i: int, x: Seq<u16>, y: Seq<u16>)
    requires at(cmd, i, x + y),
    ensures at(cmd, i, x), at(cmd, i + x.len(), y),
{
    assert forall|t: int| 0 <= t < x.len() implies cmd[i + t] == #[trigger] x[t] by { assert((x + y)[t] == x[t]); }
    assert forall|t: int| 0 <= t < y.len() implies cmd[i + x.len() + t] == #[trigger] y[t] by { assert((x + y)[x.len() + t] == y[t]); }
}

/// The quoted body of arg[p..], followed by the closing quote, is read back as arg[p..].
pub proof fn lemma_body(cmd: Seq<u16>, i: int, arg: Seq<u16>, p: int, cur: Seq<u16>)
    requires
        0 <= p <= arg.len(),
        at(cmd, i, body(arg, p)),
        i + body(arg, p).len() < cmd.len(),
        cmd[i + body(arg, p).len()] == QUOTE,
    ensures
        parse_arg(cmd, i, true, cur) == parse_arg(cmd, i + body(arg, p).len(), true, cur + arg.subrange(p, arg.len() as int)),
    decreases arg.len() - p,
{
    let b = body(arg, p);
    if p >= arg.len() {
        assert(b.len() == 0);
        assert(cur + arg.subrange(p, arg.len() as int) =~= cur);
    } else {
        let k = bs_run(arg, p);
        let j = p + k;
        lemma_bs_run_bounds(arg, p);
        assert(arg.subrange(p, j) =~= rep(BS, k));
        if j >= arg.len() {
            // only backslashes remain: doubled, then the closing quote
            assert(b == rep(BS, 2 * k));
            assert(arg.subrange(p, arg.len() as int) =~= rep(BS, k));
            if k > 0 {
                assert forall|x: int| i <= x < i + 2 * k implies cmd[x] == BS by { assert(b[x - i] == BS); }
                lemma_bs_run_exact(cmd, i, 2 * k);
                assert(cmd[i] == BS) by { assert(b[0] == BS); }
                assert((2 * k) % 2 == 0 && (2 * k) / 2 == k) by (nonlinear_arith);
            }
        } else if arg[j] == QUOTE {
            let b1 = rep(BS, 2 * k + 1);
            let rest = body(arg, j + 1);
            assert(b == b1 + seq![QUOTE] + rest);
            lemma_at_concat(cmd, i, b1 + seq![QUOTE], rest);
            lemma_at_concat(cmd, i, b1, seq![QUOTE]);
            assert(cmd[i + 2 * k + 1] == QUOTE) by { assert(seq![QUOTE][0] == QUOTE); }
            assert forall|x: int| i <= x < i + 2 * k + 1 implies cmd[x] == BS by { assert(b1[x - i] == BS); }
            lemma_bs_run_exact(cmd, i, 2 * k + 1);
            assert((2 * k + 1) % 2 == 1 && (2 * k + 1) / 2 == k) by (nonlinear_arith);
            let cur2 = cur + rep(BS, k) + seq![QUOTE];
            assert(parse_arg(cmd, i, true, cur) == parse_arg(cmd, i + 2 * k + 2, true, cur2));
            lemma_body(cmd, i + 2 * k + 2, arg, j + 1, cur2);
            assert(b.len() == 2 * k + 2 + rest.len());
            assert(cur2 + arg.subrange(j + 1, arg.len() as int) =~= cur + arg.subrange(p, arg.len() as int));
        } else {
            let c = arg[j];
            let b1 = rep(BS, k);
            let rest = body(arg, j + 1);
            assert(b == b1 + seq![c] + rest);
            lemma_at_concat(cmd, i, b1 + seq![c], rest);
            lemma_at_concat(cmd, i, b1, seq![c]);
            assert(cmd[i + k] == c) by { assert(seq![c][0] == c); }
            assert forall|x: int| i <= x < i + k implies cmd[x] == BS by { assert(b1[x - i] == BS); }
            let cur1 = cur + rep(BS, k);
            if k > 0 {
                lemma_bs_run_exact(cmd, i, k);
                assert(parse_arg(cmd, i, true, cur) == parse_arg(cmd, i + k, true, cur1));
            } else {
                assert(cur1 =~= cur);
            }
            let cur2 = cur1.push(c);
            assert(parse_arg(cmd, i + k, true, cur1) == parse_arg(cmd, i + k + 1, true, cur2));
            lemma_body(cmd, i + k + 1, arg, j + 1, cur2);
            assert(b.len() == k + 1 + rest.len());
            assert(cur2 + arg.subrange(j + 1, arg.len() as int) =~= cur + arg.subrange(p, arg.len() as int));
        }
    }
}

/// An argument that needs no quotes is read back verbatim.
pub proof fn lemma_plain(cmd: Seq<u16>, i: int, arg: Seq<u16>, p: int, cur: Seq<u16>)
    requires
        0 <= p <= arg.len(),
        forall|t: int| 0 <= t < arg.len() ==> !special(#[trigger] arg[t]),
        at(cmd, i, arg),
        i + arg.len() == cmd.len() || cmd[i + arg.len()] == SP,
    ensures
        parse_arg(cmd, i + p, false, cur) == (cur + arg.subrange(p, arg.len() as int), i + arg.len()),
    decreases arg.len() - p,
{
    let e = i + arg.len();
    if p >= arg.len() {
        assert(cur + arg.subrange(p, arg.len() as int) =~= cur);
    } else {
        assert(cmd[i + p] == arg[p]);
        let c = arg[p];
        assert(!special(c));
        if c == BS {
            let k = bs_run(arg, p);
            lemma_bs_run_bounds(arg, p);
            assert forall|x: int| i + p <= x < i + p + k implies cmd[x] == BS by { assert(cmd[i + (x - i)] == arg[x - i]); }
            if p + k < arg.len() { assert(cmd[i + (p + k)] == arg[p + k]); assert(!special(arg[p + k])); }
            lemma_bs_run_exact(cmd, i + p, k);
            assert(arg.subrange(p, p + k) =~= rep(BS, k));
            let cur1 = cur + rep(BS, k);
            assert(parse_arg(cmd, i + p, false, cur) == parse_arg(cmd, i + p + k, false, cur1));
            lemma_plain(cmd, i, arg, p + k, cur1);
            assert(cur1 + arg.subrange(p + k, arg.len() as int) =~= cur + arg.subrange(p, arg.len() as int));
        } else {
            let cur1 = cur.push(c);
            assert(parse_arg(cmd, i + p, false, cur) == parse_arg(cmd, i + p + 1, false, cur1));
            lemma_plain(cmd, i, arg, p + 1, cur1);
            assert(cur1 + arg.subrange(p + 1, arg.len() as int) =~= cur + arg.subrange(p, arg.len() as int));
        }
    }
}

/// One quoted-or-plain argument followed by the end or a space is read back as that argument.
pub proof fn lemma_one(cmd: Seq<u16>, i: int, arg: Seq<u16>)
    requires
        at(cmd, i, quoted(arg)),
        i + quoted(arg).len() == cmd.len() || cmd[i + quoted(arg).len()] == SP,
    ensures
        parse_arg(cmd, i, false, Seq::<u16>::empty()) == (arg, i + quoted(arg).len()),
        quoted(arg).len() > 0,
        !is_ws(cmd[i]),
{
    let q = quoted(arg);
    let e = i + q.len();
    let nil = Seq::<u16>::empty();
    if needs_quotes(arg) {
        let b = body(arg, 0);
        assert(q == seq![QUOTE] + b + seq![QUOTE]);
        lemma_at_concat(cmd, i, seq![QUOTE] + b, seq![QUOTE]);
        lemma_at_concat(cmd, i, seq![QUOTE], b);
        assert(cmd[i] == QUOTE) by { assert(seq![QUOTE][0] == QUOTE); }
        assert(cmd[i + 1 + b.len()] == QUOTE) by { assert(seq![QUOTE][0] == QUOTE); }
        assert(parse_arg(cmd, i, false, nil) == parse_arg(cmd, i + 1, true, nil));
        lemma_body(cmd, i + 1, arg, 0, nil);
        assert(nil + arg.subrange(0, arg.len() as int) =~= arg);
        let c = i + 1 + b.len();
        assert(e == c + 1);
        assert(parse_arg(cmd, c, true, arg) == parse_arg(cmd, c + 1, false, arg));
        assert(parse_arg(cmd, c + 1, false, arg) == (arg, c + 1));
    } else {
        assert(q == arg);
        assert(arg.len() > 0);
        assert forall|t: int| 0 <= t < arg.len() implies !special(#[trigger] arg[t]) by {}
        lemma_plain(cmd, i, arg, 0, nil);
        assert(nil + arg.subrange(0, arg.len() as int) =~= arg);
        assert(cmd[i + 0] == arg[0]);
        assert(!special(arg[0]));
    }
}

/// THE ROUND TRIP (C20): the command line for argv[k..] is split into exactly argv[k..].
pub proof fn lemma_round_trip_from(cmd: Seq<u16>, i: int, argv: Seq<Seq<u16>>, k: int, acc: Seq<Seq<u16>>)
    requires
        0 <= k <= argv.len(),
        at(cmd, i, join_from(argv, k)),
        i + join_from(argv, k).len() == cmd.len(),
        k < argv.len() || i == cmd.len(),
    ensures
        parse_all(cmd, i, acc) == acc + argv.subrange(k, argv.len() as int),
    decreases argv.len() - k,
{
    if k >= argv.len() {
        assert(acc + argv.subrange(k, argv.len() as int) =~= acc);
    } else {
        let a = argv[k];
        let q = quoted(a);
        let e = i + q.len();
        if k == argv.len() - 1 {
            assert(join_from(argv, k) == q);
            lemma_one(cmd, i, a);
            assert(skip_ws(cmd, i) == i);
            assert(skip_ws(cmd, e) == e);
            assert(parse_all(cmd, e, acc.push(a)) == acc.push(a));
            assert(acc.push(a) =~= acc + argv.subrange(k, argv.len() as int));
        } else {
            let rest = join_from(argv, k + 1);
            assert(join_from(argv, k) == q + seq![SP] + rest);
            lemma_at_concat(cmd, i, q + seq![SP], rest);
            lemma_at_concat(cmd, i, q, seq![SP]);
            assert(cmd[e] == SP) by { assert(seq![SP][0] == SP); }
            lemma_one(cmd, i, a);
            assert(skip_ws(cmd, i) == i);
            // the next argument starts right after the single space
            let a2 = argv[k + 1];
            // rest begins with quoted(a2)
            if k + 1 == argv.len() - 1 { assert(rest == quoted(a2)); } else {
                assert(rest == quoted(a2) + seq![SP] + join_from(argv, k + 2));
                lemma_at_concat(cmd, e + 1, quoted(a2) + seq![SP], join_from(argv, k + 2));
                lemma_at_concat(cmd, e + 1, quoted(a2), seq![SP]);
                assert(cmd[e + 1 + quoted(a2).len()] == SP) by { assert(seq![SP][0] == SP); }
            }
            lemma_one(cmd, e + 1, a2);
            assert(skip_ws(cmd, e + 1) == e + 1);
            assert(skip_ws(cmd, e) == e + 1);
            lemma_round_trip_from(cmd, e + 1, argv, k + 1, acc.push(a));
            // parse_all(cmd, e, X) and parse_all(cmd, e+1, X) agree: both skip to e+1
            assert(parse_all(cmd, e, acc.push(a)) == parse_all(cmd, e + 1, acc.push(a)));
            assert(acc.push(a) + argv.subrange(k + 1, argv.len() as int) =~= acc + argv.subrange(k, argv.len() as int));
        }
    }
}

pub proof fn lemma_round_trip(argv: Seq<Seq<u16>>)
    ensures parse_all(join_to(argv, argv.len() as int), 0, Seq::<Seq<u16>>::empty()) == argv,
{
    lemma_join_to_is_range(argv, argv.len() as int);
    let cmd = join_from(argv, 0);
    lemma_round_trip_from(cmd, 0, argv, 0, Seq::<Seq<u16>>::empty());
    assert(Seq::<Seq<u16>>::empty() + argv.subrange(0, argv.len() as int) =~= argv);
}

