use vstd::prelude::*;
use vstd::std_specs::ops::*;
use vstd::std_specs::cmp::*;
verus! {

// ================================================================ OS model (trusted), one exchange = three slots
// slot 0: parent's write end of the child's stdin; slot 1 / 2: read ends of stdout / stderr
pub ghost struct RStream { pub data: Seq<u8>, pub pos: nat, pub eof_seen: bool }
pub ghost struct WStream { pub intended: Seq<u8>, pub accepted: Seq<u8> }
pub ghost struct WorldState {
    pub now: nat,
    pub sin: WStream,
    pub sout: RStream,
    pub serr: RStream,
    pub r0: bool, pub r1: bool, pub r2: bool,   // reported ready by the last poll and not used since
    pub ready_at: nat,                          // clock value when that poll was entered
    pub deadline: Option<nat>,                  // deadline of the current read() call
}
pub tracked struct World { pub ghost s: WorldState }
pub const PIPE_BUF: usize = 4096;
pub struct File { pub slot: Ghost<int> }

pub open spec fn rs(w: WorldState, k: int) -> RStream { if k == 1 { w.sout } else { w.serr } }
pub open spec fn set_rs(w: WorldState, k: int, s: RStream) -> WorldState { if k == 1 { WorldState { sout: s, ..w } } else { WorldState { serr: s, ..w } } }
pub open spec fn rdy(w: WorldState, k: int) -> bool { if k == 0 { w.r0 } else if k == 1 { w.r1 } else { w.r2 } }
pub open spec fn clear_rdy(w: WorldState, k: int) -> WorldState { if k == 0 { WorldState { r0: false, ..w } } else if k == 1 { WorldState { r1: false, ..w } } else { WorldState { r2: false, ..w } } }
pub open spec fn live(w: WorldState, k: int) -> bool {
    if k == 0 { w.sin.accepted.len() < w.sin.intended.len() } else { !rs(w, k).eof_seen }
}
pub open spec fn only_live(w: WorldState, k: int) -> bool {
    (k != 0 ==> !live(w, 0)) && (k != 1 ==> !live(w, 1)) && (k != 2 ==> !live(w, 2))
}
// trusted: a Vec's length fits in usize
pub broadcast axiom fn axiom_vec_len_fits(v: &Vec<u8>)
    ensures #[trigger] v@.len() <= usize::MAX;

pub open spec fn may_io(w: WorldState, k: int) -> bool {
    ||| (rdy(w, k) && (w.deadline.is_some() ==> w.ready_at < w.deadline.unwrap()))   // reported ready by a poll entered before the deadline
    ||| (w.deadline.is_none() && only_live(w, k))                                  // or the only unfinished stream and no time limit
}
// frame: everything except the clock, the ready flags and the streams
pub open spec fn same_cfg(a: WorldState, b: WorldState) -> bool { a.deadline == b.deadline && a.ready_at == b.ready_at && b.now >= a.now }
pub open spec fn same_rdy_except(a: WorldState, b: WorldState, k: int) -> bool {
    (k != 0 ==> a.r0 == b.r0) && (k != 1 ==> a.r1 == b.r1) && (k != 2 ==> a.r2 == b.r2) && !rdy(b, k)
}
pub open spec fn remaining(s: RStream) -> nat { (s.data.len() - s.pos) as nat }

pub mod io {
    use vstd::prelude::*;
    #[derive(PartialEq, Eq)]
    pub enum ErrorKind { TimedOut, BrokenPipe, Other }
    pub struct Error { pub kind: ErrorKind }
    pub type Result<T> = core::result::Result<T, Error>;
    impl Error {
        #[verifier::external_body]
        pub fn new(kind: ErrorKind, msg: &str) -> (e: Error) ensures e.kind == kind { unimplemented!() }
    }
}

impl File {
    #[verifier::external_body]
    pub fn read(&self, buf: &mut [u8], Tracked(w): Tracked<&mut World>) -> (r: io::Result<usize>)
        requires
            self.slot@ == 1 || self.slot@ == 2,
            rs(old(w).s, self.slot@).pos <= rs(old(w).s, self.slot@).data.len(),
            may_io(old(w).s, self.slot@),
        ensures
            final(buf)@.len() == old(buf)@.len(),
            same_cfg(old(w).s, final(w).s),
            same_rdy_except(old(w).s, final(w).s, self.slot@),
            final(w).s.sin == old(w).s.sin,
            self.slot@ == 1 ==> final(w).s.serr == old(w).s.serr,
            self.slot@ == 2 ==> final(w).s.sout == old(w).s.sout,
            match r {
                Ok(n) => {
                    let s0 = rs(old(w).s, self.slot@);
                    let s1 = rs(final(w).s, self.slot@);
                    &&& n <= old(buf)@.len() && n <= remaining(s0)
                    &&& (n == 0 <==> (old(buf)@.len() == 0 || remaining(s0) == 0))
                    &&& final(buf)@.subrange(0, n as int) == s0.data.subrange(s0.pos as int, s0.pos + n)
                    &&& s1.data == s0.data && s1.pos == s0.pos + n
                    &&& s1.eof_seen == (s0.eof_seen || (n == 0 && old(buf)@.len() > 0))
                },
                Err(e) => e.kind != io::ErrorKind::TimedOut && rs(final(w).s, self.slot@) == rs(old(w).s, self.slot@),
            },
    { unimplemented!() }

    #[verifier::external_body]
    pub fn write(&self, buf: &[u8], Tracked(w): Tracked<&mut World>) -> (r: io::Result<usize>)
        requires
            self.slot@ == 0,
            may_io(old(w).s, 0),
            buf@.len() <= PIPE_BUF,   // a write of at most PIPE_BUF bytes after POLLOUT cannot block
        ensures
            same_cfg(old(w).s, final(w).s),
            same_rdy_except(old(w).s, final(w).s, 0),
            final(w).s.sout == old(w).s.sout, final(w).s.serr == old(w).s.serr,
            final(w).s.sin.intended == old(w).s.sin.intended,
            match r {
                Ok(n) => {
                    &&& n <= buf@.len() && (buf@.len() > 0 ==> n >= 1)
                    &&& final(w).s.sin.accepted == old(w).s.sin.accepted + buf@.subrange(0, n as int)
                },
                Err(e) => e.kind != io::ErrorKind::TimedOut && final(w).s.sin == old(w).s.sin,
            },
    { unimplemented!() }
}

pub fn min(a: usize, b: usize) -> (r: usize) ensures r == if a <= b { a } else { b } { if a <= b { a } else { b } }

// ================================================================ time shims
#[derive(Clone, Copy)]
pub struct Duration { pub ns: u128 }
#[derive(Clone, Copy)]
pub struct Instant { pub t: u128 }
impl SubSpecImpl<Instant> for Instant {
    open spec fn obeys_sub_spec() -> bool { true }
    open spec fn sub_req(self, rhs: Instant) -> bool { self.t >= rhs.t }
    open spec fn sub_spec(self, rhs: Instant) -> Duration { Duration { ns: (self.t - rhs.t) as u128 } }
}
impl core::ops::Sub<Instant> for Instant {
    type Output = Duration;
    fn sub(self, rhs: Instant) -> Duration { Duration { ns: self.t - rhs.t } }
}
impl PartialEqSpecImpl for Instant {
    open spec fn obeys_eq_spec() -> bool { true }
    open spec fn eq_spec(&self, other: &Instant) -> bool { self.t == other.t }
}
impl core::cmp::PartialEq for Instant { fn eq(&self, other: &Instant) -> bool { self.t == other.t } }
impl PartialOrdSpecImpl for Instant {
    open spec fn obeys_partial_cmp_spec() -> bool { true }
    open spec fn partial_cmp_spec(&self, other: &Instant) -> Option<core::cmp::Ordering> {
        if self.t < other.t { Some(core::cmp::Ordering::Less) } else if self.t == other.t { Some(core::cmp::Ordering::Equal) } else { Some(core::cmp::Ordering::Greater) }
    }
}
impl core::cmp::PartialOrd for Instant {
    fn partial_cmp(&self, other: &Instant) -> Option<core::cmp::Ordering> {
        if self.t < other.t { Some(core::cmp::Ordering::Less) } else if self.t == other.t { Some(core::cmp::Ordering::Equal) } else { Some(core::cmp::Ordering::Greater) }
    }
}
impl Duration {
    pub fn from_secs(s: u64) -> (d: Duration) ensures d.ns == s * 1_000_000_000 { Duration { ns: s as u128 * 1_000_000_000 } }
}
impl Instant {
    #[verifier::external_body]
    pub fn now(Tracked(w): Tracked<&World>) -> (r: Instant) ensures r.t == w.s.now { unimplemented!() }
}
pub open spec fn floor_ms_ns(d: Duration) -> nat { ((d.ns as nat) / 1_000_000) * 1_000_000 }

// ================================================================ posix.rs seam: contracts discharged separately against the libc model
pub mod posix {
    use vstd::prelude::*;
    use super::*;
    pub const POLLIN: i16 = 0x1;
    pub const POLLOUT: i16 = 0x4;
    pub const POLLERR: i16 = 0x8;
    pub const POLLHUP: i16 = 0x10;
    pub struct PollFd<'a> { pub fd: Option<&'a File>, pub events: i16, pub revents: i16 }
    impl<'a> PollFd<'a> {
        pub fn new(file: Option<&'a File>, events: i16) -> (r: PollFd<'a>)
            ensures r.fd == file, r.events == events, r.revents == 0
        { PollFd { fd: file, events, revents: 0 } }
        pub fn test(&self, mask: i16) -> (r: bool)
            ensures r == (self.revents & mask != 0), r ==> self.revents != 0
        {
            let x = self.revents;
            assert((x & mask != 0) ==> x != 0) by (bit_vector);
            self.revents & mask != 0
        }
    }
    pub open spec fn bit(x: i16, k: i16) -> bool { x & k != 0 }
    pub broadcast proof fn lemma_and_bits(x: i16, m: i16)
        ensures (#[trigger] (x & m) != 0) == ((bit(x, 1) && bit(m, 1)) || (bit(x, 4) && bit(m, 4)) || (bit(x, 8) && bit(m, 8)) || (bit(x, 16) && bit(m, 16)) || ((x & m) & !0x1di16 != 0))
    {
        assert(((x & m) != 0) == ((x & 1 != 0 && m & 1 != 0) || (x & 4 != 0 && m & 4 != 0) || (x & 8 != 0 && m & 8 != 0) || (x & 16 != 0 && m & 16 != 0) || ((x & m) & !0x1di16 != 0))) by (bit_vector);
    }
    pub broadcast proof fn lemma_or_bits(a: i16, b: i16, k: i16)
        ensures #[trigger] bit(a | b, k) == (bit(a, k) || bit(b, k))
    { assert(((a | b) & k != 0) == ((a & k != 0) || (b & k != 0))) by (bit_vector); }
    pub broadcast proof fn lemma_const_bits()
        ensures
            #[trigger] bit(POLLIN, 1), !bit(POLLIN, 4), !bit(POLLIN, 8), !bit(POLLIN, 16),
            !bit(POLLOUT, 1), bit(POLLOUT, 4), !bit(POLLOUT, 8), !bit(POLLOUT, 16),
            !bit(POLLERR, 1), !bit(POLLERR, 4), bit(POLLERR, 8), !bit(POLLERR, 16),
            !bit(POLLHUP, 1), !bit(POLLHUP, 4), !bit(POLLHUP, 8), bit(POLLHUP, 16),
            !bit(0, 1), !bit(0, 4), !bit(0, 8), !bit(0, 16),
    {
        assert(0x1i16 & 1 != 0 && 0x1i16 & 4 == 0 && 0x1i16 & 8 == 0 && 0x1i16 & 16 == 0) by (bit_vector);
        assert(0x4i16 & 1 == 0 && 0x4i16 & 4 != 0 && 0x4i16 & 8 == 0 && 0x4i16 & 16 == 0) by (bit_vector);
        assert(0x8i16 & 1 == 0 && 0x8i16 & 4 == 0 && 0x8i16 & 8 != 0 && 0x8i16 & 16 == 0) by (bit_vector);
        assert(0x10i16 & 1 == 0 && 0x10i16 & 4 == 0 && 0x10i16 & 8 == 0 && 0x10i16 & 16 != 0) by (bit_vector);
        assert(0i16 & 1 == 0 && 0i16 & 4 == 0 && 0i16 & 8 == 0 && 0i16 & 16 == 0) by (bit_vector);
    }
    pub broadcast proof fn lemma_floor_ms(d: Duration)
        ensures #[trigger] floor_ms_ns(d) + 1_000_000 > d.ns, floor_ms_ns(d) <= d.ns
    {
        assert(((d.ns as nat) / 1_000_000) * 1_000_000 + 1_000_000 > d.ns as nat && ((d.ns as nat) / 1_000_000) * 1_000_000 <= d.ns as nat) by (nonlinear_arith);
    }
    pub broadcast group poll_lemmas { lemma_and_bits, lemma_or_bits, lemma_const_bits, lemma_floor_ms }

    // what poll() may report for a pipe end (Linux pipe_poll): read ends POLLIN/POLLHUP, write ends POLLOUT/POLLERR
    pub open spec fn allowed_revents(slot: int, revents: i16) -> bool {
        if slot != 0 { revents == 0 || revents == POLLIN || revents == POLLHUP || revents == (POLLIN | POLLHUP) }
        else { revents == 0 || revents == POLLOUT || revents == POLLERR || revents == (POLLOUT | POLLERR) }
    }
    pub open spec fn slot_polled(fds: Seq<PollFd<'_>>, k: int) -> bool {
        exists|i: int| 0 <= i < fds.len() && #[trigger] fds[i].fd.is_some() && fds[i].fd.unwrap().slot@ == k
    }
    pub open spec fn slot_ready(fds: Seq<PollFd<'_>>, k: int) -> bool {
        exists|i: int| 0 <= i < fds.len() && #[trigger] fds[i].fd.is_some() && fds[i].fd.unwrap().slot@ == k && fds[i].revents != 0
    }
    #[verifier::external_body]
    pub fn poll(fds: &mut [PollFd<'_>], timeout: Option<Duration>, Tracked(w): Tracked<&mut World>) -> (r: io::Result<usize>)
        requires
            forall|i: int| 0 <= i < old(fds)@.len() && old(fds)@[i].fd.is_some() ==> 0 <= #[trigger] old(fds)@[i].fd.unwrap().slot@ < 3,
            // C01: a wait must cover every unfinished stream of the exchange
            forall|k: int| 0 <= k < 3 && live(old(w).s, k) ==> slot_polled(old(fds)@, k),
            // C04: never wait past the deadline, never wait without bound when there is one
            match timeout { None => old(w).s.deadline.is_none(), Some(d) => old(w).s.deadline.is_some() && (d.ns == 0 || old(w).s.now + d.ns <= old(w).s.deadline.unwrap()) },
        ensures
            final(fds)@.len() == old(fds)@.len(),
            forall|i: int| 0 <= i < old(fds)@.len() ==> (#[trigger] final(fds)@[i]).fd == old(fds)@[i].fd && final(fds)@[i].events == old(fds)@[i].events,
            final(w).s.now >= old(w).s.now,
            final(w).s.deadline == old(w).s.deadline,
            final(w).s.sin == old(w).s.sin, final(w).s.sout == old(w).s.sout, final(w).s.serr == old(w).s.serr,
            final(w).s.ready_at == old(w).s.now,
            match r {
                Ok(cnt) => {
                    &&& forall|i: int| 0 <= i < old(fds)@.len() && old(fds)@[i].fd.is_none() ==> (#[trigger] final(fds)@[i]).revents == 0
                    &&& forall|i: int| 0 <= i < old(fds)@.len() && old(fds)@[i].fd.is_some() ==> allowed_revents(old(fds)@[i].fd.unwrap().slot@, (#[trigger] final(fds)@[i]).revents)
                    &&& final(w).s.r0 == slot_ready(final(fds)@, 0) && final(w).s.r1 == slot_ready(final(fds)@, 1) && final(w).s.r2 == slot_ready(final(fds)@, 2)
                    &&& (cnt == 0 <==> forall|i: int| 0 <= i < old(fds)@.len() ==> (#[trigger] final(fds)@[i]).revents == 0)
                    &&& (cnt == 0 ==> timeout.is_some() && final(w).s.now >= old(w).s.now + floor_ms_ns(timeout.unwrap()))
                },
                Err(e) => e.kind != io::ErrorKind::TimedOut && !final(w).s.r0 && !final(w).s.r1 && !final(w).s.r2,
            }
    { unimplemented!() }
}
