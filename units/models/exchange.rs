use vstd::prelude::*;
use vstd::std_specs::ops::*;
use vstd::std_specs::cmp::*;
verus! {

// ================================================================ OS model (trusted), one exchange = three slots
// slot 0: parent's write end of the child's stdin; slot 1 / 2: read ends of stdout / stderr
pub ghost struct RStream { pub data: Seq<u8>, pub pos: nat, pub eof_seen: bool }
pub ghost struct WStream { pub intended: Seq<u8>, pub accepted: Seq<u8> }
pub ghost struct WorldState {
    pub now: nat,
    pub sin: WStream,
    pub sout: RStream,
    pub serr: RStream,
    pub r0: bool, pub r1: bool, pub r2: bool,   // reported ready by the last poll and not used since
    pub ready_at: nat,                          // clock value when that poll was entered
    pub deadline: Option<nat>,                  // deadline of the current read() call
}
pub tracked struct World { pub ghost s: WorldState }
pub const PIPE_BUF: usize = 4096;
// ghost transition: a new read() call starts; its deadline becomes the deadline of the exchange and stale poll results are forgotten
pub axiom fn begin_read(tracked w: &mut World, d: Option<nat>)
    ensures final(w).s == (WorldState { deadline: d, r0: false, r1: false, r2: false, ..old(w).s });

// trusted: the machine does not run for 2^96 ns (2.5e12 years); every model call re-establishes this
pub open spec fn clock_ok(w: WorldState) -> bool { w.now < 0x1_0000_0000_0000_0000_0000_0000 }
pub open spec const T_MAX: nat = 0x10_0000_0000_0000_0000_0000_0000;   // 2^100: bound on deadlines handed to the loop (std's Instant arithmetic would have panicked far earlier)
pub struct File { pub slot: Ghost<int> }

pub open spec fn rs(w: WorldState, k: int) -> RStream { if k == 1 { w.sout } else { w.serr } }
pub open spec fn set_rs(w: WorldState, k: int, s: RStream) -> WorldState { if k == 1 { WorldState { sout: s, ..w } } else { WorldState { serr: s, ..w } } }
pub open spec fn rdy(w: WorldState, k: int) -> bool { if k == 0 { w.r0 } else if k == 1 { w.r1 } else { w.r2 } }
pub open spec fn clear_rdy(w: WorldState, k: int) -> WorldState { if k == 0 { WorldState { r0: false, ..w } } else if k == 1 { WorldState { r1: false, ..w } } else { WorldState { r2: false, ..w } } }
pub open spec fn live(w: WorldState, k: int) -> bool {
    if k == 0 { w.sin.accepted.len() < w.sin.intended.len() } else { !rs(w, k).eof_seen }
}
pub open spec fn only_live(w: WorldState, k: int) -> bool {
    (k != 0 ==> !live(w, 0)) && (k != 1 ==> !live(w, 1)) && (k != 2 ==> !live(w, 2))
}
// trusted: a Vec's length fits in usize
pub broadcast axiom fn axiom_vec_len_fits(v: &Vec<u8>)
    ensures #[trigger] v@.len() <= usize::MAX;

pub open spec fn may_io(w: WorldState, k: int) -> bool {
    ||| (rdy(w, k) && (w.deadline.is_some() ==> w.ready_at < w.deadline.unwrap()))   // reported ready by a poll entered before the deadline
    ||| (w.deadline.is_none() && only_live(w, k))                                  // or the only unfinished stream and no time limit
}
// frame: everything except the clock, the ready flags and the streams
pub open spec fn same_cfg(a: WorldState, b: WorldState) -> bool { a.deadline == b.deadline && a.ready_at == b.ready_at && b.now >= a.now }
pub open spec fn same_rdy_except(a: WorldState, b: WorldState, k: int) -> bool {
    (k != 0 ==> a.r0 == b.r0) && (k != 1 ==> a.r1 == b.r1) && (k != 2 ==> a.r2 == b.r2) && !rdy(b, k)
}
pub open spec fn remaining(s: RStream) -> nat { (s.data.len() - s.pos) as nat }

// ---- byte-exact accounting, kept abstract so that the loop proof is algebra over these two functions (the
// sequence structure is only opened inside the four lemmas below)
// the bytes taken from a read stream between two of its states
pub closed spec fn consumed(s0: RStream, s1: RStream) -> Seq<u8> { s0.data.subrange(s0.pos as int, s1.pos as int) }
// the first `pos` bytes of the input
pub closed spec fn delivered(d: Seq<u8>, pos: int) -> Seq<u8> { d.subrange(0, pos) }

pub broadcast proof fn lemma_consumed_len(s0: RStream, s1: RStream)
    requires s0.data == s1.data, s0.pos <= s1.pos <= s0.data.len()
    ensures (#[trigger] consumed(s0, s1)).len() == s1.pos - s0.pos
{ }
pub broadcast proof fn lemma_consumed_none(b: Seq<u8>, s0: RStream, s1: RStream)
    requires s0.pos == s1.pos, s0.pos <= s0.data.len()
    ensures #[trigger] (b + consumed(s0, s1)) == b
{ assert(b + consumed(s0, s1) =~= b); }
pub broadcast proof fn lemma_consumed_step(b: Seq<u8>, s0: RStream, s1: RStream, s2: RStream)
    requires s0.data == s1.data, s1.data == s2.data, s0.pos <= s1.pos <= s2.pos <= s0.data.len()
    ensures #[trigger] ((b + consumed(s0, s1)) + consumed(s1, s2)) == b + consumed(s0, s2)
{ assert((b + consumed(s0, s1)) + consumed(s1, s2) =~= b + consumed(s0, s2)); }
pub broadcast proof fn lemma_delivered_step(d: Seq<u8>, pos: int, x: Seq<u8>, n: int)
    requires 0 <= pos <= d.len(), x.len() <= d.len() - pos, x == d.subrange(pos, d.len() as int).subrange(0, x.len() as int), 0 <= n <= x.len()
    ensures #[trigger] (delivered(d, pos) + x.subrange(0, n)) == delivered(d, pos + n)
{ assert(delivered(d, pos) + x.subrange(0, n) =~= delivered(d, pos + n)); }
pub broadcast proof fn lemma_delivered_ends(d: Seq<u8>)
    ensures #[trigger] delivered(d, 0) == Seq::<u8>::empty(), #[trigger] delivered(d, d.len() as int) == d
{ assert(delivered(d, 0) =~= Seq::<u8>::empty()); assert(delivered(d, d.len() as int) =~= d); }
pub broadcast group bytes_lemmas { lemma_consumed_len, lemma_consumed_none, lemma_consumed_step, lemma_delivered_step, lemma_delivered_ends }


pub mod io {
    use vstd::prelude::*;
    #[derive(PartialEq, Eq)]
    pub enum ErrorKind { TimedOut, BrokenPipe, Other }
    pub struct Error { pub kind: ErrorKind }
    pub type Result<T> = core::result::Result<T, Error>;
    impl Error {
        #[verifier::external_body]
        pub fn new(kind: ErrorKind, msg: &str) -> (e: Error) ensures e.kind == kind { unimplemented!() }
    }
}

impl File {
    #[verifier::external_body]
    pub fn read(&self, buf: &mut [u8], Tracked(w): Tracked<&mut World>) -> (r: io::Result<usize>)
        requires
            self.slot@ == 1 || self.slot@ == 2,
            rs(old(w).s, self.slot@).pos <= rs(old(w).s, self.slot@).data.len(),
            may_io(old(w).s, self.slot@),
        ensures
            final(buf)@.len() == old(buf)@.len(),
            same_cfg(old(w).s, final(w).s), clock_ok(final(w).s),
            same_rdy_except(old(w).s, final(w).s, self.slot@),
            final(w).s.sin == old(w).s.sin,
            self.slot@ == 1 ==> final(w).s.serr == old(w).s.serr,
            self.slot@ == 2 ==> final(w).s.sout == old(w).s.sout,
            match r {
                Ok(n) => {
                    let s0 = rs(old(w).s, self.slot@);
                    let s1 = rs(final(w).s, self.slot@);
                    &&& n <= old(buf)@.len() && n <= remaining(s0)
                    &&& (n == 0 <==> (old(buf)@.len() == 0 || remaining(s0) == 0))
                    &&& s1.data == s0.data && s1.pos == s0.pos + n
                    &&& final(buf)@.subrange(0, n as int) == consumed(s0, s1)     // = s0.data[s0.pos .. s0.pos + n]
                    &&& s1.eof_seen == (s0.eof_seen || (n == 0 && old(buf)@.len() > 0))
                },
                Err(e) => e.kind != io::ErrorKind::TimedOut && rs(final(w).s, self.slot@) == rs(old(w).s, self.slot@),
            },
    { unimplemented!() }

    #[verifier::external_body]
    pub fn write(&self, buf: &[u8], Tracked(w): Tracked<&mut World>) -> (r: io::Result<usize>)
        requires
            self.slot@ == 0,
            may_io(old(w).s, 0),
            buf@.len() <= PIPE_BUF,   // a write of at most PIPE_BUF bytes after POLLOUT cannot block
        ensures
            same_cfg(old(w).s, final(w).s), clock_ok(final(w).s),
            same_rdy_except(old(w).s, final(w).s, 0),
            final(w).s.sout == old(w).s.sout, final(w).s.serr == old(w).s.serr,
            final(w).s.sin.intended == old(w).s.sin.intended,
            match r {
                Ok(n) => {
                    &&& n <= buf@.len() && (buf@.len() > 0 ==> n >= 1)
                    &&& final(w).s.sin.accepted == old(w).s.sin.accepted + buf@.subrange(0, n as int)
                },
                Err(e) => e.kind != io::ErrorKind::TimedOut && final(w).s.sin == old(w).s.sin,
            },
    { unimplemented!() }
}

pub fn min(a: usize, b: usize) -> (r: usize) ensures r == if a <= b { a } else { b } { if a <= b { a } else { b } }

//@include time.rs
//@include stdspecs.rs
// ================================================================ posix.rs seam: contracts discharged separately against the libc model
pub mod posix {
    use vstd::prelude::*;
    use super::*;
    pub use super::posix_impl::poll;   // the real wrapper, extracted from src/posix.rs
    pub const POLLIN: i16 = 0x1;
    pub const POLLOUT: i16 = 0x4;
    pub const POLLERR: i16 = 0x8;
    pub const POLLHUP: i16 = 0x10;
    pub struct PollFd<'a> { pub fd: Option<&'a File>, pub events: i16, pub revents: i16 }
    impl<'a> PollFd<'a> {
        pub fn new(file: Option<&'a File>, events: i16) -> (r: PollFd<'a>)
            ensures r.fd == file, r.events == events, r.revents == 0
        { PollFd { fd: file, events, revents: 0 } }
        pub fn test(&self, mask: i16) -> (r: bool)
            ensures r == (self.revents & mask != 0), r ==> self.revents != 0
        {
            let x = self.revents;
            assert((x & mask != 0) ==> x != 0) by (bit_vector);
            self.revents & mask != 0
        }
    }
    pub open spec fn bit(x: i16, k: i16) -> bool { x & k != 0 }
    pub broadcast proof fn lemma_and_bits(x: i16, m: i16)
        ensures (#[trigger] (x & m) != 0) == ((bit(x, 1) && bit(m, 1)) || (bit(x, 4) && bit(m, 4)) || (bit(x, 8) && bit(m, 8)) || (bit(x, 16) && bit(m, 16)) || ((x & m) & !0x1di16 != 0))
    {
        assert(((x & m) != 0) == ((x & 1 != 0 && m & 1 != 0) || (x & 4 != 0 && m & 4 != 0) || (x & 8 != 0 && m & 8 != 0) || (x & 16 != 0 && m & 16 != 0) || ((x & m) & !0x1di16 != 0))) by (bit_vector);
    }
    pub broadcast proof fn lemma_or_bits(a: i16, b: i16, k: i16)
        ensures #[trigger] bit(a | b, k) == (bit(a, k) || bit(b, k))
    { assert(((a | b) & k != 0) == ((a & k != 0) || (b & k != 0))) by (bit_vector); }
    pub broadcast proof fn lemma_const_bits()
        ensures
            #[trigger] bit(POLLIN, 1), !bit(POLLIN, 4), !bit(POLLIN, 8), !bit(POLLIN, 16),
            !bit(POLLOUT, 1), bit(POLLOUT, 4), !bit(POLLOUT, 8), !bit(POLLOUT, 16),
            !bit(POLLERR, 1), !bit(POLLERR, 4), bit(POLLERR, 8), !bit(POLLERR, 16),
            !bit(POLLHUP, 1), !bit(POLLHUP, 4), !bit(POLLHUP, 8), bit(POLLHUP, 16),
            !bit(0, 1), !bit(0, 4), !bit(0, 8), !bit(0, 16),
    {
        assert(0x1i16 & 1 != 0 && 0x1i16 & 4 == 0 && 0x1i16 & 8 == 0 && 0x1i16 & 16 == 0) by (bit_vector);
        assert(0x4i16 & 1 == 0 && 0x4i16 & 4 != 0 && 0x4i16 & 8 == 0 && 0x4i16 & 16 == 0) by (bit_vector);
        assert(0x8i16 & 1 == 0 && 0x8i16 & 4 == 0 && 0x8i16 & 8 != 0 && 0x8i16 & 16 == 0) by (bit_vector);
        assert(0x10i16 & 1 == 0 && 0x10i16 & 4 == 0 && 0x10i16 & 8 == 0 && 0x10i16 & 16 != 0) by (bit_vector);
        assert(0i16 & 1 == 0 && 0i16 & 4 == 0 && 0i16 & 8 == 0 && 0i16 & 16 == 0) by (bit_vector);
    }
    pub broadcast proof fn lemma_floor_ms(d: Duration)
        ensures #[trigger] floor_ms_ns(d) + 1_000_000 > d.ns, floor_ms_ns(d) <= d.ns
    {
        assert(((d.ns as nat) / 1_000_000) * 1_000_000 + 1_000_000 > d.ns as nat && ((d.ns as nat) / 1_000_000) * 1_000_000 <= d.ns as nat) by (nonlinear_arith);
    }
    pub broadcast group poll_lemmas { lemma_and_bits, lemma_or_bits, lemma_const_bits, lemma_floor_ms }

    // what poll() may report for a pipe end (Linux pipe_poll): read ends POLLIN/POLLHUP, write ends POLLOUT/POLLERR
    pub open spec fn allowed_revents(slot: int, revents: i16) -> bool {
        if slot != 0 { revents == 0 || revents == POLLIN || revents == POLLHUP || revents == (POLLIN | POLLHUP) }
        else { revents == 0 || revents == POLLOUT || revents == POLLERR || revents == (POLLOUT | POLLERR) }
    }
    pub open spec fn slot_polled(fds: Seq<PollFd<'_>>, k: int) -> bool {
        exists|i: int| 0 <= i < fds.len() && #[trigger] fds[i].fd.is_some() && fds[i].fd.unwrap().slot@ == k
    }
    pub open spec fn slot_ready(fds: Seq<PollFd<'_>>, k: int) -> bool {
        exists|i: int| 0 <= i < fds.len() && #[trigger] fds[i].fd.is_some() && fds[i].fd.unwrap().slot@ == k && fds[i].revents != 0
    }
    // C01: a wait covers every unfinished stream of the exchange
    pub open spec fn covers_live(w: WorldState, fds: Seq<PollFd<'_>>) -> bool {
        (live(w, 0) ==> slot_polled(fds, 0)) && (live(w, 1) ==> slot_polled(fds, 1)) && (live(w, 2) ==> slot_polled(fds, 2))
    }
    pub open spec fn ms_ns(ms: i32) -> nat { (ms as nat) * 1_000_000 }
    // The single system call.  R6: stands for the two statements
    //     let fds_ptr = fds.as_ptr() as *mut libc::pollfd;
    //     let cnt = unsafe { check_err(libc::poll(fds_ptr, fds.len() as libc::nfds_t, timeout_ms))? };
    // (PollFd is #[repr(C)] over libc::pollfd; the pointer/length pair and check_err are discharged by Kani, see kani/).
    #[verifier::external_body]
    pub fn libc_poll(fds: &mut [PollFd<'_>], timeout_ms: i32, Tracked(w): Tracked<&mut World>) -> (r: io::Result<i32>)
        requires
            forall|i: int| 0 <= i < old(fds)@.len() && old(fds)@[i].fd.is_some() ==> 0 <= #[trigger] old(fds)@[i].fd.unwrap().slot@ < 3,
            timeout_ms >= -1,
            // C01: a wait must cover every unfinished stream of the exchange
            covers_live(old(w).s, old(fds)@), //[C01]
            // C04: never wait without bound when there is a deadline, never wait past it
            timeout_ms == -1 ==> old(w).s.deadline.is_none(), //[C04]
            timeout_ms > 0 ==> old(w).s.deadline.is_some() && old(w).s.now + ms_ns(timeout_ms) <= old(w).s.deadline.unwrap(), //[C04]
        ensures
            final(fds)@.len() == old(fds)@.len(),
            forall|i: int| #![trigger final(fds)@[i]] #![trigger old(fds)@[i]] 0 <= i < old(fds)@.len() ==> final(fds)@[i].fd == old(fds)@[i].fd && final(fds)@[i].events == old(fds)@[i].events,
            final(w).s.now >= old(w).s.now, clock_ok(final(w).s),
            final(w).s.deadline == old(w).s.deadline,
            final(w).s.sin == old(w).s.sin, final(w).s.sout == old(w).s.sout, final(w).s.serr == old(w).s.serr,
            final(w).s.ready_at == old(w).s.now,
            match r {
                Ok(cnt) => {
                    &&& cnt >= 0
                    &&& forall|i: int| 0 <= i < old(fds)@.len() && old(fds)@[i].fd.is_none() ==> (#[trigger] final(fds)@[i]).revents == 0
                    &&& forall|i: int| 0 <= i < old(fds)@.len() && old(fds)@[i].fd.is_some() ==> allowed_revents(old(fds)@[i].fd.unwrap().slot@, (#[trigger] final(fds)@[i]).revents)
                    &&& final(w).s.r0 == slot_ready(final(fds)@, 0) && final(w).s.r1 == slot_ready(final(fds)@, 1) && final(w).s.r2 == slot_ready(final(fds)@, 2)
                    &&& (cnt == 0 <==> forall|i: int| 0 <= i < old(fds)@.len() ==> (#[trigger] final(fds)@[i]).revents == 0)
                    &&& (cnt == 0 ==> timeout_ms >= 0 && final(w).s.now >= old(w).s.now + ms_ns(timeout_ms))
                },
                Err(e) => e.kind != io::ErrorKind::TimedOut && !final(w).s.r0 && !final(w).s.r1 && !final(w).s.r2,
            }
    { unimplemented!() }
}
