impl PrepExec {
    // src/posix.rs::PrepExec::libc_exec: execve/execv on the prepared vectors (argument pass-through: Kani); returning at all means failure
    #[verifier::external_body]
    pub fn libc_exec(&self, exe: &[u8], Tracked(w): Tracked<&mut World>) -> (r: Result<()>)
        requires exe@.len() > 0 && exe@.last() == 0,     // the path handed to exec is NUL-terminated //[C15]
        ensures r is Err, final(w).s.attempts == old(w).s.attempts.push(exe@), final(w).s.last_err == r->Err_0.code,
    { unimplemented!() }

}
