// ---- shims that need the extracted types (Popen, PopenConfig, Redirection ...) -- trusted; contracts restated from the units
// that prove them (spawn: create; pstate: wait / drop)
// what a stage is "given" for a stream, as a function of the Redirection passed to create and the parent end create hands back.
// Closed: the proofs only need the three facts below, not a case split over all variants at every use.
pub closed spec fn given(r: Redirection, parent: Option<File>) -> Given {
    match r {
        Redirection::None => Given::Inherit,
        Redirection::Pipe => Given::NewPipe(match parent { Some(f) => f.obj@, None => 0 }),
        Redirection::Merge => Given::Merged,
        Redirection::File(f) => Given::Obj(f.obj@),
        Redirection::RcFile(f) => Given::Obj(f.obj@),
    }
}
pub broadcast proof fn lemma_given_pipe(r: Redirection, f: File)
    requires r is Pipe
    ensures #[trigger] given(r, Some(f)) == Given::NewPipe(f.obj@)
{ }
pub broadcast proof fn lemma_given_file(r: Redirection, parent: Option<File>)
    requires r is File || r is RcFile
    ensures #[trigger] given(r, parent) == Given::Obj(if r is File { r->File_0.obj@ } else { r->RcFile_0.obj@ })
{ }
pub broadcast proof fn lemma_given_none(r: Redirection, parent: Option<File>)
    requires r is None
    ensures #[trigger] given(r, parent) == Given::Inherit
{ }
pub broadcast group given_lemmas { lemma_given_pipe, lemma_given_file, lemma_given_none }
pub open spec fn redir_obj(r: Redirection) -> Option<int> { match r { Redirection::File(f) => Some(f.obj@), Redirection::RcFile(f) => Some(f.obj@), _ => None } }
pub open spec fn is_given_obj(o: int, c: PopenConfig) -> bool { redir_obj(c.stdin) == Some(o) || redir_obj(c.stdout) == Some(o) || redir_obj(c.stderr) == Some(o) }
pub open spec fn bytes_of(v: Seq<OsString>) -> Seq<Seq<u8>> { Seq::new(v.len(), |i: int| v[i].b@) }
pub open spec fn stage_of(argv: Seq<OsString>, c: PopenConfig, p: Popen) -> Stage {
    Stage { argv: bytes_of(argv), stdin: given(c.stdin, p.stdin), stdout: given(c.stdout, p.stdout), stderr: given(c.stderr, p.stderr), detached: c.detached, reaped: false }
}
pub open spec fn running(p: Popen, k: int) -> bool { p.child_state == (ChildState::Running { pid: k as u32, ext: () }) && 0 <= k < 0x1_0000_0000 }
// the pipe ends a Popen holds are the ones recorded for its stage
pub open spec fn popen_of_stage(p: Popen, k: int, st: Stage) -> bool {
    &&& running(p, k) && p.detached == st.detached
    &&& (p.stdin.is_some() ==> st.stdin == Given::NewPipe(p.stdin.unwrap().obj@)) && (p.stdout.is_some() ==> st.stdout == Given::NewPipe(p.stdout.unwrap().obj@))
    &&& (p.stderr.is_some() ==> st.stderr == Given::NewPipe(p.stderr.unwrap().obj@))
}
// C12/C14 wait-safety: a blocking wait issued implicitly by the library (drop glue) must not happen while the parent still holds
// an end of one of that child's pipes -- the child may be waiting for end-of-file on it, or blocked writing into it
pub open spec fn holds_no_pipe(p: Popen) -> bool { p.stdin.is_none() && p.stdout.is_none() && p.stderr.is_none() }
pub open spec fn set_reaped(w: BW, k: int) -> BW { BW { stages: w.stages.update(k, Stage { reaped: true, ..w.stages[k] }), waits: w.waits + 1, ..w } }

impl Popen {
    // contract of Popen::create (unit spawn), at the level of objects
    #[verifier::external_body]
    pub fn create(argv: &Vec<OsString>, config: PopenConfig, Tracked(w): Tracked<&mut World>) -> (r: Result<Popen>)
        requires old(w).s.stages.len() < 0xffff_ffff,
            // C08: a child inherits every descriptor that is not close-on-exec: the only inheritable library-created pipe ends around
            // may be the ones this very child is given
            forall|o: int| #[trigger] old(w).s.inheritable.contains(o) ==> is_given_obj(o, config), //[C08]
        ensures match r {
            Ok(p) => {
                &&& final(w).s == (BW { stages: old(w).s.stages.push(stage_of(argv@, config, p)), ..old(w).s })
                &&& running(p, old(w).s.stages.len() as int) && p.detached == config.detached
                &&& p.stdin.is_some() == (config.stdin is Pipe) && p.stdout.is_some() == (config.stdout is Pipe) && p.stderr.is_some() == (config.stderr is Pipe)
            },
            Err(e) => final(w).s == old(w).s,    // nothing was started (C07)
        }
    { unimplemented!() }

    // contract of wait (unit pstate): blocks until the child is reaped; simplification: does not fail
    #[verifier::external_body]
    pub fn wait(&mut self, Tracked(w): Tracked<&mut World>) -> (r: Result<ExitStatus>)
        requires old(self).child_state is Running ==> (old(self).child_state->pid as int) < old(w).s.stages.len(),
            // wait-safety: the library itself holds no pipe end a child could be blocked on
            old(self).child_state is Running ==> no_parked(old(w).s), //[C12,C14]
        ensures
            r is Ok, final(self).stdin == old(self).stdin, final(self).stdout == old(self).stdout, final(self).stderr == old(self).stderr, final(self).detached == old(self).detached,
            old(self).child_state is Running ==> final(w).s == set_reaped(old(w).s, old(self).child_state->pid as int) && final(self).child_state is Finished,
            !(old(self).child_state is Running) ==> final(w).s == old(w).s && final(self).child_state == old(self).child_state,
    { unimplemented!() }

    // contract of Popen::drop (unit pstate, R8) plus the wait-safety discipline for the waits the library causes implicitly
    #[verifier::external_body]
    pub fn drop_impl(&mut self, Tracked(w): Tracked<&mut World>)
        requires
            old(self).child_state is Running ==> (old(self).child_state->pid as int) < old(w).s.stages.len(),
            !old(self).detached && old(self).child_state is Running ==> holds_no_pipe(*old(self)) && no_parked(old(w).s), //[C01,C12,C14]
        ensures
            !old(self).detached && old(self).child_state is Running ==> final(w).s == set_reaped(old(w).s, old(self).child_state->pid as int),
            old(self).detached || !(old(self).child_state is Running) ==> final(w).s == old(w).s,    // a detached handle never blocks, never reaps
    { unimplemented!() }

    // communicate_start takes the three pipe ends out of the Popen (unit comm proves what the Communicator does with them)
    #[verifier::external_body]
    pub fn communicate_start(&mut self, input_data: Option<Vec<u8>>, Tracked(w): Tracked<&mut World>) -> (r: Communicator)
        requires old(self).stdin.is_some() == input_data.is_some(),     // documented panics
        ensures holds_no_pipe(*final(self)), final(self).child_state == old(self).child_state, final(self).detached == old(self).detached,
            r.out_piped@ == old(self).stdout.is_some(), r.err_piped@ == old(self).stderr.is_some(),
            // the pipe ends now live in the Communicator: still held by the library
            r.ends@ == opt_obj(old(self).stdin).union(opt_obj(old(self).stdout)).union(opt_obj(old(self).stderr)),
            final(w).s == (BW { parked: old(w).s.parked.union(r.ends@), ..old(w).s }),
    { unimplemented!() }
}
impl PopenConfig {
    // PopenConfig::current_env(): std::env::vars_os().collect()
    #[verifier::external_body]
    pub fn current_env() -> (r: Vec<(OsString, OsString)>) ensures r@ == parent_env() { unimplemented!() }
}
// R6: `envvec.retain(|(k, _v)| k != key)` (a closure with a destructuring parameter): keeps, in order, the entries whose name differs
#[verifier::external_body]
pub fn env_retain_ne(v: &mut Vec<(OsString, OsString)>, key: &OsStr)
    ensures final(v)@ == old(v)@.filter(|kv: (OsString, OsString)| kv.0.b@ != key.b@)
{ unimplemented!() }
pub struct Communicator { pub out_piped: Ghost<bool>, pub err_piped: Ghost<bool>, pub ends: Ghost<Set<int>> }
pub struct CommunicateError { pub error: io::Error }
impl Communicator {
    #[verifier::external_body]
    pub fn read(&mut self, Tracked(w): Tracked<&mut World>) -> (r: core::result::Result<(Option<Vec<u8>>, Option<Vec<u8>>), CommunicateError>)
        ensures r is Ok ==> r->Ok_0.0.is_some() == old(self).out_piped@ && r->Ok_0.1.is_some() == old(self).err_piped@, *final(self) == *old(self),
            // an unlimited read that succeeds has delivered all input (and closed stdin) and seen end-of-file on every captured stream
            // (unit comm): no child can be blocked on these ends any more.  A failed read leaves them as they were.
            r is Ok ==> final(w).s == (BW { parked: old(w).s.parked.difference(old(self).ends@), full_reads: old(w).s.full_reads + 1, ..old(w).s }),
            r is Err ==> final(w).s == old(w).s,
    { unimplemented!() }
}
// dropping a Communicator closes the pipe ends it holds (its fields are Option<File>)
#[verifier::external_body]
pub fn drop_glue_communicator(c: Communicator, Tracked(w): Tracked<&mut World>)
    ensures final(w).s == (BW { parked: old(w).s.parked.difference(c.ends@), ..old(w).s })
{ unimplemented!() }
// a Communicator returned to the caller is the caller's to look after: the library's terminators that hand one out (communicate())
// have detached the children and wait for nothing
#[verifier::external_body]
pub proof fn hand_over(tracked w: &mut World, ends: Set<int>)
    ensures final(w).s == (BW { parked: old(w).s.parked.difference(ends), ..old(w).s })
{ unimplemented!() }
// dropping a File closes it
#[verifier::external_body]
pub fn drop_glue_opt_file(f: Option<File>, Tracked(w): Tracked<&mut World>)
    ensures final(w).s == (BW { parked: old(w).s.parked.difference(opt_obj(f)), ..old(w).s })
{ unimplemented!() }
impl vstd::std_specs::convert::FromSpecImpl<CommunicateError> for PopenError {
    open spec fn obeys_from_spec() -> bool { true }
    open spec fn from_spec(v: CommunicateError) -> Self { PopenError::IoError(v.error) }
}
impl From<CommunicateError> for PopenError { fn from(err: CommunicateError) -> (r: PopenError) { PopenError::IoError(err.error) } }
pub mod communicate {
    use vstd::prelude::*;
    use super::*;
    #[verifier::external_body]
    pub fn communicate(stdin: Option<File>, stdout: Option<File>, stderr: Option<File>, input_data: Option<Vec<u8>>, Tracked(w): Tracked<&mut World>) -> (r: Communicator)
        requires stdin.is_some() == input_data.is_some(),
        ensures r.out_piped@ == stdout.is_some(), r.err_piped@ == stderr.is_some(),
            r.ends@ == opt_obj(stdin).union(opt_obj(stdout)).union(opt_obj(stderr)),
            final(w).s == (BW { parked: old(w).s.parked.union(r.ends@), ..old(w).s }),
    { unimplemented!() }
}
pub mod popen_m {
    use vstd::prelude::*;
    use super::*;
    // crate::popen::make_pipe (= posix::pipe, Kani w_pipe): both ends are born close-on-exec
    #[verifier::external_body]
    pub fn make_pipe(Tracked(w): Tracked<&mut World>) -> (r: io::Result<(File, File)>)
        ensures match r {
            Ok((rd, wr)) => peer(rd.obj@) == wr.obj@ && peer(wr.obj@) == rd.obj@ && rd.obj@ != wr.obj@ && !old(w).s.inheritable.contains(rd.obj@) && !old(w).s.inheritable.contains(wr.obj@)
                // the read end is the library's to look after until it is closed or handed to a Communicator
                && final(w).s == (BW { parked: old(w).s.parked.insert(rd.obj@), ..old(w).s }),
            Err(e) => final(w).s == old(w).s,
        }
    { unimplemented!() }
    // crate::popen::set_inheritable (unit spawn / Kani w_set_inheritable)
    #[verifier::external_body]
    pub fn set_inheritable(f: &File, inheritable: bool, Tracked(w): Tracked<&mut World>) -> (r: io::Result<()>)
        ensures
            r is Ok && !inheritable ==> final(w).s == (BW { inheritable: old(w).s.inheritable.remove(f.obj@), ..old(w).s }),
            r is Err || inheritable ==> final(w).s == old(w).s,
    { unimplemented!() }
}

// ---- drop glue, written per the Rust reference: the type's own Drop::drop first (R8: drop_impl), then the fields in declaration order;
// Vec<T>: the elements in order.  (Files are closed by their own drop; not modelled.)
pub fn drop_glue_popen(p: Popen, Tracked(w): Tracked<&mut World>)
    requires p.child_state is Running ==> (p.child_state->pid as int) < old(w).s.stages.len(),
        !p.detached && p.child_state is Running ==> holds_no_pipe(p) && no_parked(old(w).s), //[C01,C12,C14]
    ensures
        !p.detached && p.child_state is Running ==> final(w).s == set_reaped(old(w).s, p.child_state->pid as int),
        p.detached || !(p.child_state is Running) ==> final(w).s == old(w).s,
{
    let mut p = p;
    p.drop_impl(Tracked(w));
}
