// Spawn world (trusted): what one Popen::create does to the descriptor table of the parent and to the image of the
// child between fork and exec.  Everything marked external_body / axiom / uninterp is an assumption (listed in the evidence).
use vstd::prelude::*;
use std::rc::Rc;
verus! {

pub mod io {
    use vstd::prelude::*;
    pub struct Error { pub code: Option<i32> }
    pub type Result<T> = core::result::Result<T, Error>;
    impl Error {
        pub fn raw_os_error(&self) -> (r: Option<i32>) ensures r == self.code { self.code }
        pub fn from_raw_os_error(code: i32) -> (r: Error) ensures r.code == Some(code) { Error { code: Some(code) } }
    }
}
// an open file: `obj` is the open file description (what redirections are about), `fd` the descriptor number
pub struct File { pub obj: Ghost<int>, pub fd: i32 }
pub struct OsString { pub b: Vec<u8> }
pub struct OsStr { pub b: Vec<u8> }
pub struct CString { pub b: Vec<u8> }
pub struct CStr { pub b: Vec<u8> }

//@source src/os_common.rs
//@enum StandardStream derive=Clone,Copy
//@enum ExitStatus derive=Clone,Copy

pub uninterp spec fn peer(obj: int) -> int;                    // the other end of a pipe
pub uninterp spec fn is_read_end(obj: int) -> bool;
pub uninterp spec fn std_obj(which: StandardStream) -> int;    // what the parent's descriptors 0/1/2 refer to
pub uninterp spec fn lib_created(obj: int) -> bool;            // a pipe end made by posix::pipe (as opposed to std streams and caller-supplied files)

pub ghost struct ExecReq { pub cmd: Seq<u8>, pub argv: Seq<Seq<u8>>, pub env: Option<Seq<Seq<u8>>> }
// the image of the child being prepared (meaningful in the child branch after fork)
pub ghost struct ChildImg {
    pub fd0: Option<int>, pub fd1: Option<int>, pub fd2: Option<int>,   // object dup2'ed onto 0/1/2; None = inherited from the parent
    pub cwd: Option<Seq<u8>>,
    pub uid: Option<u32>, pub gid: Option<u32>, pub new_pgrp: bool,
    pub sig_clean: bool,                                                // empty signal mask and default SIGPIPE
    pub failed: Option<i32>,                                            // errno of the first child-side step that failed
    pub reported: Option<Seq<u8>>,                                      // bytes written to the launch-status pipe
    pub exec_tried: Option<ExecReq>,
}
pub ghost struct SW {
    pub in_child: bool,                    // we are the forked child (between fork and exec)
    pub forks: nat,                        // number of fork() calls so far
    pub child_pid: u32,
    pub child_unreaped: bool,              // a child forked through this world exists and has not been waited for
    pub inheritable: Set<int>,             // library-created pipe ends open in this process that are NOT close-on-exec
    pub cloexec: Set<int>,                 // library-created pipe ends open in this process that ARE close-on-exec
    pub at_fork_inheritable: Set<int>,     // `inheritable` at the moment of the (last) fork = what the child image receives besides 0/1/2
    pub at_fork_cloexec: Set<int>,
    pub closed_in_child: Set<int>,         // descriptors closed by the child after fork
    pub launch: Option<u32>,               // prophecy: None = exec succeeded (status pipe closed by exec); Some(c) = the child reported c
    pub waits: nat,                        // blocking waits so far
    pub want: ExecReq,                     // what the caller of create asked to run: program, argument vector, whether an environment is given (ghost, fixed by create's precondition)
    pub status_read_failed: bool,          // the parent's read of the launch-status pipe returned an error
}
pub tracked struct World { pub ghost s: SW, pub ghost img: ChildImg }

pub open spec fn img0() -> ChildImg {
    ChildImg { fd0: None, fd1: None, fd2: None, cwd: None, uid: None, gid: None, new_pgrp: false, sig_clean: false, failed: None, reported: None, exec_tried: None }
}
pub mod le {
    use vstd::prelude::*;
    // little-endian encoding of the errno on the launch-status pipe
    pub open spec fn le_bytes(c: u32) -> Seq<u8> { seq![c as u8, (c >> 8) as u8, (c >> 16) as u8, (c >> 24) as u8] }
    // the decoding expression of os_start is the inverse of the encoding expression of os_start
    pub broadcast proof fn lemma_le_roundtrip(c: u32)
        ensures ({ let b = #[trigger] le_bytes(c); (b[0] as u32 | (b[1] as u32) << 8 | (b[2] as u32) << 16 | (b[3] as u32) << 24) == c })
    {
        assert((c as u8) as u32 | (((c >> 8) as u8) as u32) << 8 | (((c >> 16) as u8) as u32) << 16 | (((c >> 24) as u8) as u32) << 24 == c) by (bit_vector);
    }
}
pub use le::le_bytes;

pub fn drop<T>(x: T) {}

impl File {
    pub fn as_raw_fd(&self) -> (r: i32) ensures r == self.fd { self.fd }

    // launch-status pipe, child side: what is written must be the errno of the step that failed (C07)
    #[verifier::external_body]
    pub fn write_all(&mut self, buf: &[u8], Tracked(w): Tracked<&mut World>) -> (r: io::Result<()>)
        requires
            old(w).s.in_child,
            old(w).img.failed.is_some() && buf@ =~= le_bytes(old(w).img.failed.unwrap() as u32), //[C07]
            old(w).s.at_fork_cloexec.contains(old(self).obj@),    // ... on a descriptor that exec would have closed //[C07]
        ensures final(w).s == old(w).s && final(w).img == (ChildImg { reported: Some(buf@), ..old(w).img }), final(self).obj == old(self).obj
    { unimplemented!() }

    // launch-status pipe, parent side: end-of-file iff the exec happened; otherwise exactly what the child reported
    #[verifier::external_body]
    pub fn read(&mut self, buf: &mut [u8], Tracked(w): Tracked<&mut World>) -> (r: io::Result<usize>)
        requires
            !old(w).s.in_child, old(buf)@.len() == 4,
            // the parent's own write end must be closed, or end-of-file never arrives (C07 "returns only after that is known" without hanging)
            !old(w).s.inheritable.contains(peer(old(self).obj@)) && !old(w).s.cloexec.contains(peer(old(self).obj@)), //[C07]
        ensures final(w).img == old(w).img,
            final(self).obj == old(self).obj, final(buf)@.len() == 4,
            r is Ok ==> final(w).s == old(w).s && (match old(w).s.launch { None => r->Ok_0 == 0, Some(c) => r->Ok_0 == 4 && final(buf)@ == le_bytes(c) }),
            r is Err ==> final(w).s == (SW { status_read_failed: true, ..old(w).s }),
    { unimplemented!() }
}

pub mod posix {
    use vstd::prelude::*;
    use super::*;

    // W-contract (Kani: w_pipe): two fresh ends of one new pipe, read end first, both BORN close-on-exec (pipe2(O_CLOEXEC))
    #[verifier::external_body]
    pub fn pipe(Tracked(w): Tracked<&mut World>) -> (r: io::Result<(File, File)>)
        requires !old(w).s.in_child,
        ensures final(w).img == old(w).img, match r {
            Ok((rd, wr)) => {
                &&& peer(rd.obj@) == wr.obj@ && peer(wr.obj@) == rd.obj@ && is_read_end(rd.obj@) && !is_read_end(wr.obj@) && rd.obj@ != wr.obj@
                &&& lib_created(rd.obj@) && lib_created(wr.obj@) && rd.fd >= 3 && wr.fd >= 3   // trusted: the parent's descriptors 0..2 are open, so new descriptors are >= 3
                &&& !old(w).s.inheritable.contains(rd.obj@) && !old(w).s.cloexec.contains(rd.obj@) && !old(w).s.inheritable.contains(wr.obj@) && !old(w).s.cloexec.contains(wr.obj@)
                &&& final(w).s == (SW { cloexec: old(w).s.cloexec.insert(rd.obj@).insert(wr.obj@), ..old(w).s })
            },
            Err(e) => final(w).s == old(w).s,
        }
    { unimplemented!() }

    // R6: stands for the F_GETFD / F_SETFD(old | FD_CLOEXEC) pair of set_inheritable(f, false)  (Kani: w_set_inheritable)
    #[verifier::external_body]
    pub fn fcntl_set_cloexec(f: &File, Tracked(w): Tracked<&mut World>) -> (r: io::Result<()>)
        requires !old(w).s.in_child,
        ensures final(w).img == old(w).img,
            r is Ok && lib_created(f.obj@) ==> final(w).s == (SW { inheritable: old(w).s.inheritable.remove(f.obj@), cloexec: old(w).s.cloexec.insert(f.obj@), ..old(w).s }),
            r is Ok && !lib_created(f.obj@) ==> final(w).s == old(w).s,
            r is Err ==> final(w).s == old(w).s,
    { unimplemented!() }
    pub const F_GETFD: i32 = 1;
    pub const F_SETFD: i32 = 2;
    pub const FD_CLOEXEC: i32 = 1;

    // W-contract of fork (Kani: w_fork_ids) + what fork means: the child receives a copy of the descriptor table
    #[verifier::external_body]
    pub unsafe fn fork(Tracked(w): Tracked<&mut World>) -> (r: io::Result<Option<u32>>)
        requires !old(w).s.in_child,
        ensures match r {
            Ok(Some(pid)) => final(w).img == old(w).img && final(w).s == (SW { forks: old(w).s.forks + 1, child_pid: pid, child_unreaped: true, at_fork_inheritable: old(w).s.inheritable, at_fork_cloexec: old(w).s.cloexec, ..old(w).s }),
            Ok(None) => final(w).img == img0() && final(w).s == (SW { forks: old(w).s.forks + 1, in_child: true, at_fork_inheritable: old(w).s.inheritable, at_fork_cloexec: old(w).s.cloexec, closed_in_child: Set::<int>::empty(), ..old(w).s }),
            Err(e) => final(w).s == old(w).s && final(w).img == old(w).img,
        }
    { unimplemented!() }

    #[verifier::external_body]
    pub fn _exit(status: u8, Tracked(w): Tracked<&mut World>) -> !
        requires old(w).s.in_child, old(w).img.reported.is_some(),   // the child never leaves without having reported (C07) //[C07]
    { unimplemented!() }

    pub open spec fn set_fd(img: ChildImg, n: i32, obj: int) -> ChildImg {
        if n == 0 { ChildImg { fd0: Some(obj), ..img } } else if n == 1 { ChildImg { fd1: Some(obj), ..img } } else { ChildImg { fd2: Some(obj), ..img } }
    }
    // the open file a descriptor of the CHILD refers to right now: 0/1/2 may already have been redirected
    pub open spec fn cur_obj(img: ChildImg, f: File) -> int {
        if f.fd == 0 && img.fd0.is_some() { img.fd0.unwrap() } else if f.fd == 1 && img.fd1.is_some() { img.fd1.unwrap() } else if f.fd == 2 && img.fd2.is_some() { img.fd2.unwrap() } else { f.obj@ }
    }
    pub open spec fn errcode(e: io::Error) -> i32 { match e.code { Some(c) => c, None => -1i32 } }
    // a child-side step: only in the child, never after an earlier step failed; a failure records its errno (C07)
    pub open spec fn step_pre(w: World) -> bool { w.s.in_child && w.img.failed.is_none() }
    pub open spec fn step_failed(w0: World, w1: World, e: io::Error) -> bool { w1.s == w0.s && w1.img == (ChildImg { failed: Some(errcode(e)), ..w0.img }) }

    // R6: stands for `posix::dup2(F.as_raw_fd(), N)`: dup2 makes descriptor N refer to the open file F's descriptor refers to
    // (pass-through of the wrapper: Kani w_dup2)
    #[verifier::external_body]
    pub fn dup2_file(f: &File, newfd: i32, Tracked(w): Tracked<&mut World>) -> (r: io::Result<()>)
        requires step_pre(*old(w)), 0 <= newfd <= 2,
            // C05: the source descriptor must still refer to the file it was opened on -- not to something an earlier dup2 put there
            cur_obj(old(w).img, *f) == f.obj@, //[C05]
        ensures match r {
            Ok(()) => final(w).s == old(w).s && final(w).img == (set_fd(old(w).img, newfd, f.obj@)),
            Err(e) => step_failed(*old(w), *final(w), e),
        }
    { unimplemented!() }

    // W-contract (Kani: w_reset_sigpipe)
    #[verifier::external_body]
    pub fn reset_sigpipe(Tracked(w): Tracked<&mut World>) -> (r: io::Result<()>)
        requires step_pre(*old(w)),
        ensures match r {
            Ok(()) => final(w).s == old(w).s && final(w).img == (ChildImg { sig_clean: true, ..old(w).img }),
            Err(e) => step_failed(*old(w), *final(w), e),
        }
    { unimplemented!() }

    // W-contract of posix::chdir: chdir(2) on a prepared C string -- no allocation
    #[verifier::external_body]
    pub fn chdir(dir: &CStr, Tracked(w): Tracked<&mut World>) -> (r: io::Result<()>)
        requires step_pre(*old(w)),
            // C06: the child is given BOTH the requested directory and the requested identity whenever the caller could enter the
            // directory: the directory is entered with the caller's identity, i.e. before the user or group id is changed (a directory
            // only the caller can reach would otherwise turn a satisfiable request into EACCES)
            old(w).img.uid.is_none() && old(w).img.gid.is_none(), //[C06]
        ensures match r {
            Ok(()) => final(w).s == old(w).s && final(w).img == (ChildImg { cwd: Some(dir.b@), ..old(w).img }),
            Err(e) => step_failed(*old(w), *final(w), e),
        }
    { unimplemented!() }
    // W-contract of posix::os_to_cstring (Kani: w_os_to_cstring_b4): allocates; NUL => EINVAL; bytes verbatim
    #[verifier::external_body]
    pub fn os_to_cstring(s: &OsStr, Tracked(w): Tracked<&World>) -> (r: io::Result<CString>)
        requires !w.s.in_child,      // C17: allocates; must happen before the fork //[C17]
        ensures r is Ok ==> r->Ok_0.b@ == s.b@,
    { unimplemented!() }

    #[verifier::external_body]
    pub fn setuid(uid: u32, Tracked(w): Tracked<&mut World>) -> (r: io::Result<()>)
        requires step_pre(*old(w)),
        ensures match r {
            Ok(()) => final(w).s == old(w).s && final(w).img == (ChildImg { uid: Some(uid), ..old(w).img }),
            Err(e) => step_failed(*old(w), *final(w), e),
        }
    { unimplemented!() }
    #[verifier::external_body]
    pub fn setgid(gid: u32, Tracked(w): Tracked<&mut World>) -> (r: io::Result<()>)
        requires step_pre(*old(w)),
            // C06: the group must be changed while the process still has the privilege to do so, i.e. BEFORE the user id is dropped
            old(w).img.uid.is_none(), //[C06]
        ensures match r {
            Ok(()) => final(w).s == old(w).s && final(w).img == (ChildImg { gid: Some(gid), ..old(w).img }),
            Err(e) => step_failed(*old(w), *final(w), e),
        }
    { unimplemented!() }
    #[verifier::external_body]
    pub fn setpgid(pid: u32, pgid: u32, Tracked(w): Tracked<&mut World>) -> (r: io::Result<()>)
        requires step_pre(*old(w)),
        ensures match r {
            Ok(()) => final(w).s == old(w).s && final(w).img == (ChildImg { new_pgrp: pid == 0 && pgid == 0, ..old(w).img }),
            Err(e) => step_failed(*old(w), *final(w), e),
        }
    { unimplemented!() }

    // what posix::prep_exec returns: everything needed for the exec, prepared BEFORE the fork.  R9: the real return type is
    // `impl FnOnce() -> io::Result<()>`; a closure cannot take the ghost world, so it is represented by this type and the call
    // `just_exec()` becomes `just_exec.call(Tracked(w))`.  The closure's body (PrepExec::exec) is verified in unit `exec`.
    pub struct JustExec { pub req: Ghost<ExecReq> }
    impl JustExec {
        #[verifier::external_body]
        pub fn call(self, Tracked(w): Tracked<&mut World>) -> (r: io::Result<()>)
            requires step_pre(*old(w)),
                old(w).img.sig_clean,   // C18: the program starts with an empty signal mask and default SIGPIPE //[C18]
                // C06: what is executed is the requested program with the whole requested argument vector (argv[0] included), and an
                // environment vector exactly when one was given
                self.req@.cmd == old(w).s.want.cmd && self.req@.argv == old(w).s.want.argv && self.req@.env.is_some() == old(w).s.want.env.is_some(), //[C06]
            ensures
                r is Err,                 // returning at all means that exec failed (unit `exec`: PrepExec::exec ensures Err)
                final(w).s == old(w).s && final(w).img == (ChildImg { failed: Some(errcode(r->Err_0)), exec_tried: Some(self.req@), ..old(w).img }),
        { unimplemented!() }
    }
    pub open spec fn bytes_of(v: Seq<OsString>) -> Seq<Seq<u8>> { Seq::new(v.len(), |i: int| v[i].b@) }
    #[verifier::external_body]
    pub fn prep_exec(cmd: &OsString, args: &Vec<OsString>, env: Option<&Vec<OsString>>, Tracked(w): Tracked<&World>) -> (r: io::Result<JustExec>)
        requires !w.s.in_child,      // C17: allocates; must happen before the fork //[C17]
        ensures r is Ok ==> r->Ok_0.req@ == (ExecReq { cmd: cmd.b@, argv: bytes_of(args@), env: match env { Some(e) => Some(bytes_of(e@)), None => None } }),
    { unimplemented!() }
}

// the leaked handle on the parent's own descriptor 0/1/2 (posix::make_standard_stream: Kani w_make_standard_stream)
#[verifier::external_body]
pub fn get_standard_stream(which: StandardStream) -> (r: io::Result<Rc<File>>)
    ensures r is Ok ==> r->Ok_0.obj@ == std_obj(which) && r->Ok_0.fd == which as i32 && !lib_created(r->Ok_0.obj@)
{ unimplemented!() }

// format_env (duplicate elimination; bounded Kani harness) and the OsString/OsStr plumbing of os_start
#[verifier::external_body]
pub fn format_env(env: &Vec<(OsString, OsString)>) -> (r: Vec<OsString>) { unimplemented!() }
