// ---- drop glue of the adapters and of Vec<Popen>, written per the Rust reference (the type's own Drop::drop -- extracted from
// /repo as drop_impl, an empty method if the type has no Drop impl -- then the fields in declaration order; Vec: elements in order).
// The obligation is that these functions verify: every implicit blocking wait satisfies the wait-safety precondition of
// Popen::drop_impl, and afterwards every non-detached child is reaped (C12).
pub open spec fn stage_ok(p: Popen, w: BW) -> bool { p.child_state is Running ==> (p.child_state->pid as int) < w.stages.len() }
pub open spec fn reaped_or_detached(p: Popen, w: BW) -> bool {
    p.child_state is Running && !p.detached ==> w.stages[p.child_state->pid as int].reaped
}
pub open spec fn same_stages_mod_reaped(a: BW, b: BW) -> bool {
    a.parked == b.parked && a.inheritable == b.inheritable && a.full_reads == b.full_reads && a.stages.len() == b.stages.len() && forall|i: int| 0 <= i < a.stages.len() ==> (#[trigger] b.stages[i]) == (Stage { reaped: b.stages[i].reaped, ..a.stages[i] }) && (a.stages[i].reaped ==> b.stages[i].reaped)
}

pub fn drop_glue_read_out_adapter(a: ReadOutAdapter, Tracked(w): Tracked<&mut World>)
    requires stage_ok(a.0, old(w).s), a.0.stdin.is_none() && a.0.stderr.is_none(),     // what stream_stdout hands out
        no_parked(old(w).s),
    ensures reaped_or_detached(a.0, final(w).s), same_stages_mod_reaped(old(w).s, final(w).s), //[C12]
{
    let mut a = a;
    a.drop_impl();
    drop_glue_popen(a.0, Tracked(w));
}
pub fn drop_glue_read_err_adapter(a: ReadErrAdapter, Tracked(w): Tracked<&mut World>)
    requires stage_ok(a.0, old(w).s), a.0.stdin.is_none() && a.0.stdout.is_none(), no_parked(old(w).s),
    ensures reaped_or_detached(a.0, final(w).s), same_stages_mod_reaped(old(w).s, final(w).s), //[C12]
{
    let mut a = a;
    a.drop_impl();
    drop_glue_popen(a.0, Tracked(w));
}
pub fn drop_glue_write_adapter(a: WriteAdapter, Tracked(w): Tracked<&mut World>)
    requires stage_ok(a.0, old(w).s), a.0.stdout.is_none() && a.0.stderr.is_none(), no_parked(old(w).s),
    ensures reaped_or_detached(a.0, final(w).s), same_stages_mod_reaped(old(w).s, final(w).s), //[C12]
{
    let mut a = a;
    a.drop_impl();
    drop_glue_popen(a.0, Tracked(w));
}

// ---- Vec<Popen>: elements are dropped in order
pub open spec fn all_stage_ok(v: Seq<Popen>, w: BW) -> bool { forall|i: int| 0 <= i < v.len() ==> stage_ok(#[trigger] v[i], w) }
pub open spec fn distinct_stages(v: Seq<Popen>) -> bool {
    forall|i: int, j: int| 0 <= i < j < v.len() && (#[trigger] v[i]).child_state is Running && (#[trigger] v[j]).child_state is Running ==> v[i].child_state->pid != v[j].child_state->pid
}
pub open spec fn all_wait_safe(v: Seq<Popen>, s: BW) -> bool {
    forall|i: int| 0 <= i < v.len() && !(#[trigger] v[i]).detached && v[i].child_state is Running ==> holds_no_pipe(v[i]) && no_parked(s)
}
pub open spec fn all_reaped(v: Seq<Popen>, w: BW) -> bool { forall|i: int| 0 <= i < v.len() ==> reaped_or_detached(#[trigger] v[i], w) }

pub fn drop_glue_vec_popen(v: Vec<Popen>, Tracked(w): Tracked<&mut World>)
    requires all_stage_ok(v@, old(w).s), all_wait_safe(v@, old(w).s), //[C01,C12,C14]
    ensures all_reaped(v@, final(w).s), same_stages_mod_reaped(old(w).s, final(w).s), //[C12,C14]
{
    let mut v = v;
    let ghost v0 = v@;
    let ghost mut i: int = 0;
    while v.len() > 0
        invariant
            0 <= i, v@.len() + i == v0.len(), forall|j: int| 0 <= j < v@.len() ==> v@[j] == v0[i + j],
            all_stage_ok(v0, w.s), all_wait_safe(v0, w.s), same_stages_mod_reaped(old(w).s, w.s),
            forall|j: int| 0 <= j < i ==> reaped_or_detached(#[trigger] v0[j], w.s),
        decreases v@.len()
    {
        let p = v.remove(0);
        assert(p == v0[i]);
        drop_glue_popen(p, Tracked(w));
        proof { i = i + 1; }
    }
}
pub fn drop_glue_read_pipeline_adapter(a: ReadPipelineAdapter, Tracked(w): Tracked<&mut World>)
    requires a.0@.len() >= 1, all_stage_ok(a.0@, old(w).s), no_parked(old(w).s),
        // what Pipeline::stream_stdout hands out: only the last stage still holds a pipe end (its stdout)
        forall|i: int| 0 <= i < a.0@.len() ==> (#[trigger] a.0@[i]).stdin.is_none() && a.0@[i].stderr.is_none() && (i < a.0@.len() - 1 ==> a.0@[i].stdout.is_none()),
    ensures all_reaped(a.0@, final(w).s), same_stages_mod_reaped(old(w).s, final(w).s), //[C12]
{
    let ghost v0 = a.0@;
    let mut a = a;
    a.drop_impl();
    let ghost v1 = a.0@;
    assert(forall|i: int| 0 <= i < v0.len() ==> (#[trigger] v1[i]).child_state == v0[i].child_state && v1[i].detached == v0[i].detached);
    drop_glue_vec_popen(a.0, Tracked(w));
    assert forall|i: int| 0 <= i < v0.len() implies reaped_or_detached(#[trigger] v0[i], w.s) by { assert(reaped_or_detached(v1[i], w.s)); }
}
pub fn drop_glue_write_pipeline_adapter(a: WritePipelineAdapter, Tracked(w): Tracked<&mut World>)
    requires a.0@.len() >= 1, all_stage_ok(a.0@, old(w).s), no_parked(old(w).s),
        forall|i: int| 0 <= i < a.0@.len() ==> (#[trigger] a.0@[i]).stdout.is_none() && a.0@[i].stderr.is_none() && (i > 0 ==> a.0@[i].stdin.is_none()),
    ensures all_reaped(a.0@, final(w).s), same_stages_mod_reaped(old(w).s, final(w).s), //[C12]
{
    let ghost v0 = a.0@;
    let mut a = a;
    a.drop_impl();
    let ghost v1 = a.0@;
    assert(forall|i: int| 0 <= i < v0.len() ==> (#[trigger] v1[i]).child_state == v0[i].child_state && v1[i].detached == v0[i].detached);
    drop_glue_vec_popen(a.0, Tracked(w));
    assert forall|i: int| 0 <= i < v0.len() implies reaped_or_detached(#[trigger] v0[i], w.s) by { assert(reaped_or_detached(v1[i], w.s)); }
}
