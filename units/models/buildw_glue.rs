// ---- drop glue of the adapters and of Vec<Popen>, written per the Rust reference (the type's own Drop::drop -- extracted from
// /repo as drop_impl, an empty method if the type has no Drop impl -- then the fields in declaration order; Vec: elements in order).
// The obligation is that these functions verify: every implicit blocking wait satisfies the wait-safety precondition of
// Popen::drop_impl, and afterwards every non-detached child is reaped (C12).
pub open spec fn stage_ok(p: Popen, w: BW) -> bool { p.child_state is Running ==> (p.child_state->pid as int) < w.stages.len() }
pub open spec fn reaped_or_detached(p: Popen, w: BW) -> bool {
    p.child_state is Running && !p.detached ==> w.stages[p.child_state->pid as int].reaped
}
pub open spec fn same_stages_mod_reaped(a: BW, b: BW) -> bool {
    a.stages.len() == b.stages.len() && forall|i: int| 0 <= i < a.stages.len() ==> (#[trigger] b.stages[i]) == (Stage { reaped: b.stages[i].reaped, ..a.stages[i] }) && (a.stages[i].reaped ==> b.stages[i].reaped)
}

pub fn drop_glue_read_out_adapter(a: ReadOutAdapter, Tracked(w): Tracked<&mut World>)
    requires stage_ok(a.0, old(w).s), a.0.stdin.is_none() && a.0.stderr.is_none(),     // what stream_stdout hands out
    ensures reaped_or_detached(a.0, final(w).s), same_stages_mod_reaped(old(w).s, final(w).s), //[C12]
{
    let mut a = a;
    a.drop_impl();
    drop_glue_popen(a.0, Tracked(w));
}
pub fn drop_glue_read_err_adapter(a: ReadErrAdapter, Tracked(w): Tracked<&mut World>)
    requires stage_ok(a.0, old(w).s), a.0.stdin.is_none() && a.0.stdout.is_none(),
    ensures reaped_or_detached(a.0, final(w).s), same_stages_mod_reaped(old(w).s, final(w).s), //[C12]
{
    let mut a = a;
    a.drop_impl();
    drop_glue_popen(a.0, Tracked(w));
}
pub fn drop_glue_write_adapter(a: WriteAdapter, Tracked(w): Tracked<&mut World>)
    requires stage_ok(a.0, old(w).s), a.0.stdout.is_none() && a.0.stderr.is_none(),
    ensures reaped_or_detached(a.0, final(w).s), same_stages_mod_reaped(old(w).s, final(w).s), //[C12]
{
    let mut a = a;
    a.drop_impl();
    drop_glue_popen(a.0, Tracked(w));
}
