// R6: `self.cmds.into_iter().map(|cmd| cmd.stderr(Redirection::RcFile(Rc::clone(&stderr_to)))).collect()` = Exec::stderr applied to every element
#[verifier::external_body]
pub fn map_stderr(cmds: Vec<Exec>, stderr_to: &Rc<File>) -> (r: Vec<Exec>)
    requires forall|i: int| 0 <= i < cmds@.len() ==> (#[trigger] cmds@[i]).config.stderr is None,
    ensures r@.len() == cmds@.len(),
        forall|i: int| 0 <= i < cmds@.len() ==> {
            let a = cmds@[i]; let b = #[trigger] r@[i];
            &&& b.command == a.command && b.args == a.args && b.stdin_data == a.stdin_data && b.config.detached == a.config.detached
            &&& b.config.stdin == a.config.stdin && b.config.stdout == a.config.stdout && b.config.env == a.config.env && b.config.cwd == a.config.cwd
            &&& b.config.stderr == Redirection::RcFile(*stderr_to)
        },
{ unimplemented!() }

// R6: `self.cmds.into_iter().map(|cmd| cmd.detached()).collect()` = Exec::detached applied to every element
#[verifier::external_body]
pub fn map_detached(cmds: Vec<Exec>) -> (r: Vec<Exec>)
    ensures r@.len() == cmds@.len(),
        forall|i: int| 0 <= i < cmds@.len() ==> {
            let a = cmds@[i]; let b = #[trigger] r@[i];
            &&& b.command == a.command && b.args == a.args && b.stdin_data == a.stdin_data && b.config.detached
            &&& b.config.stdin == a.config.stdin && b.config.stdout == a.config.stdout && b.config.stderr == a.config.stderr && b.config.env == a.config.env && b.config.cwd == a.config.cwd
        },
{ unimplemented!() }

// R6: `iterable.into_iter().collect()` in Pipeline::from_exec_iter: the elements the iterator yields, in order
pub trait ExecSource: Sized { spec fn items(&self) -> Seq<Exec>; }
#[verifier::external_body]
pub fn collect_execs<I: ExecSource>(iterable: I) -> (r: Vec<Exec>) ensures r@ == iterable.items() { unimplemented!() }
// R6: the documented panic of from_exec_iter (fewer than two elements): reaching it is a violated precondition
#[verifier::external_body]
pub fn documented_panic() -> ! requires false { unimplemented!() }
