// Process-state world (trusted): ONE child process -- the one a Popen stands for -- seen through
// waitpid/kill/sleep/clock.  Everything marked external_body / axiom is an assumption and is listed in the evidence.
use vstd::prelude::*;
use vstd::std_specs::ops::*;
use vstd::std_specs::cmp::*;
verus! {

pub mod io {
    use vstd::prelude::*;
    pub struct Error { pub code: Option<i32> }
    pub type Result<T> = core::result::Result<T, Error>;
    impl Error {
        pub fn raw_os_error(&self) -> (r: Option<i32>) ensures r == self.code { self.code }
        pub fn from_raw_os_error(code: i32) -> (r: Error) ensures r.code == Some(code) { Error { code: Some(code) } }
    }
}
pub struct File { pub id: Ghost<int> }

//@source src/os_common.rs
//@enum ExitStatus derive=Clone,Copy

// what the kernel knows about the child
pub enum Kernel {
    Running,          // not yet terminated
    Zombie,           // terminated, status not yet collected
    Reaped,           // status collected by a waitpid issued through this world
    Gone,             // status collected by someone else (another thread, a SIGCHLD handler): the pid means nothing any more
}
pub ghost struct PS {
    pub pid: u32,                 // the child's process id
    pub kernel: Kernel,
    pub fate: ExitStatus,         // prophecy: how the child terminates (exit code or fatal signal)
    pub observed: bool,           // a call made through this world has revealed that the child is dead (status returned, or ECHILD)
    pub now: nat,                 // virtual clock, ns
    pub n_waitpid: nat,           // calls of waitpid so far
    pub n_blocking: nat,          // ... of which blocking
    pub n_sleep: nat,             // calls of sleep so far
    pub kills: Seq<(u32, i32)>,   // every kill(pid, sig) issued so far
    pub wait_deadline: Option<nat>,   // deadline of the wait_timeout in progress (ghost; set by begin_wait)
    pub fresh: bool,                  // no sleep has happened since the last status check
}
pub tracked struct World { pub ghost s: PS }

// a real termination status: exit code 0..255 or a fatal signal 1..127 -- never both, never "Undetermined"
pub open spec fn proper(st: ExitStatus) -> bool {
    match st { ExitStatus::Exited(c) => c <= 255, ExitStatus::Signaled(s) => 1 <= s <= 127, _ => false }
}
pub open spec fn same_log(a: PS, b: PS) -> bool {
    a.n_waitpid == b.n_waitpid && a.n_blocking == b.n_blocking && a.n_sleep == b.n_sleep && a.kills == b.kills
}
pub open spec fn clock_ok(w: PS) -> bool { w.now < 0x1_0000_0000_0000_0000_0000_0000 }

//@include time.rs
//@include stdspecs.rs
pub fn min(a: Duration, b: Duration) -> (r: Duration) ensures r.ns == (if a.ns <= b.ns { a.ns } else { b.ns }) { if a.ns <= b.ns { a } else { b } }

// ghost transition: a wait_timeout call fixes its deadline
pub axiom fn begin_wait(tracked w: &mut World, d: nat)
    ensures final(w).s == (PS { wait_deadline: Some(d), ..old(w).s });

// R6: stands for `::std::thread::sleep(d)` (an absolute path cannot be shadowed by a shim)
#[verifier::external_body]
pub fn thread_sleep(d: Duration, Tracked(w): Tracked<&mut World>)
    requires
        d.ns <= 100_000_000,                                                     // C11: a status change is noticed within 0.1 s //[C11]
        old(w).s.wait_deadline.is_some() ==> old(w).s.now + d.ns <= old(w).s.wait_deadline.unwrap(),   // C11: never sleeps past the deadline //[C11]
        d.ns > 0,                                                                // C11: a zero sleep would be a busy wait //[C11]
    ensures
        final(w).s == (PS { now: final(w).s.now, kernel: final(w).s.kernel, n_sleep: old(w).s.n_sleep + 1, fresh: false, ..old(w).s }),
        final(w).s.now >= old(w).s.now + d.ns, clock_ok(final(w).s),
        kernel_step(old(w).s.kernel, final(w).s.kernel),
{ unimplemented!() }

// what may happen to the child behind our back while time passes
pub open spec fn kernel_step(a: Kernel, b: Kernel) -> bool {
    match a { Kernel::Running => !(b is Reaped), Kernel::Zombie => b is Zombie || b is Gone, Kernel::Reaped => b is Reaped, Kernel::Gone => b is Gone }
}

pub mod posix {
    use vstd::prelude::*;
    use super::*;
    pub const ECHILD: i32 = 10;
    // other errno values a change to the code might name (Linux numbering; they only need to differ from ECHILD)
    pub const EPERM: i32 = 1;
    pub const ESRCH: i32 = 3;
    pub const EINTR: i32 = 4;
    pub const EAGAIN: i32 = 11;
    pub const EINVAL: i32 = 22;
    pub const WNOHANG: i32 = 1;
    pub const SIGTERM: i32 = 15;
    pub const SIGKILL: i32 = 9;

    // W-contract of src/posix.rs::waitpid + decode_exit_status (discharged by Kani against the libc model, see kani/)
    #[verifier::external_body]
    pub fn waitpid(pid: u32, flags: i32, Tracked(w): Tracked<&mut World>) -> (r: io::Result<(u32, ExitStatus)>)
        requires
            pid == old(w).s.pid,                  // C09/C10: only ever about our own child
            !old(w).s.observed,                   // C09: no further OS call once the child is known to be dead //[C09]
            flags == 0 || flags == WNOHANG,
        ensures
            final(w).s.pid == old(w).s.pid, final(w).s.fate == old(w).s.fate, final(w).s.kills == old(w).s.kills,
            final(w).s.n_sleep == old(w).s.n_sleep, final(w).s.wait_deadline == old(w).s.wait_deadline,
            final(w).s.n_waitpid == old(w).s.n_waitpid + 1,
            final(w).s.n_blocking == old(w).s.n_blocking + (if flags == 0 { 1nat } else { 0nat }),
            final(w).s.now >= old(w).s.now, clock_ok(final(w).s), final(w).s.fresh,
            match r {
                // the child's status: only once it has terminated, and it is the real one; this call has reaped it
                Ok((p, st)) => if p == pid { !(old(w).s.kernel is Reaped) && !(old(w).s.kernel is Gone) && final(w).s.kernel is Reaped && st == old(w).s.fate && proper(st) && final(w).s.observed }
                               // "nothing to report": only without blocking, and the child is still there
                               else { p == 0 && flags == WNOHANG && (final(w).s.kernel is Running || final(w).s.kernel is Zombie) && kernel_step(old(w).s.kernel, final(w).s.kernel) && !final(w).s.observed },
                // ECHILD: somebody else collected the status; any other error: nothing learnt
                Err(e) => if e.code == Some(ECHILD) { final(w).s.kernel is Gone && final(w).s.observed }
                          else { kernel_step(old(w).s.kernel, final(w).s.kernel) && !final(w).s.observed },
            },
    { unimplemented!() }

    // W-contract of src/posix.rs::kill
    #[verifier::external_body]
    pub fn kill(pid: u32, signal: i32, Tracked(w): Tracked<&mut World>) -> (r: io::Result<()>)
        requires
            pid == old(w).s.pid,                  // C10: to exactly the child's process id //[C10]
            !old(w).s.observed,                   // C10: never after the child is known to be dead (the pid may have been recycled) //[C10]
        ensures
            final(w).s == (PS { kills: old(w).s.kills.push((pid, signal)), now: final(w).s.now, kernel: final(w).s.kernel, ..old(w).s }),
            final(w).s.now >= old(w).s.now, clock_ok(final(w).s), kernel_step(old(w).s.kernel, final(w).s.kernel),
    { unimplemented!() }
}
