// Exec world (trusted): what the closure returned by posix::prep_exec does between fork and exec -- which program paths it
// tries, in which order, and whether it touches the allocator.  external_body / uninterp items are assumptions (listed in the evidence).
use vstd::prelude::*;
verus! {

pub mod io {
    use vstd::prelude::*;
    pub struct Error { pub code: Option<i32> }
    pub type Result<T> = core::result::Result<T, Error>;
    impl Error {
        pub fn from_raw_os_error(code: i32) -> (r: Error) ensures r.code == Some(code) { Error { code: Some(code) } }
        pub fn raw_os_error(&self) -> (r: Option<i32>) ensures r == self.code { self.code }
    }
}
pub use io::{Error, Result};
pub mod libc { pub const ENOENT: i32 = 2; pub const EACCES: i32 = 13; pub const ENOTDIR: i32 = 20; pub const ENOEXEC: i32 = 8; pub const EPERM: i32 = 1; }
pub struct OsString { pub b: Vec<u8> }
pub struct OsStr { pub b: Vec<u8> }
impl OsString {
    pub fn len(&self) -> (r: usize) ensures r == self.b@.len() { self.b.len() }
    pub fn as_bytes(&self) -> (r: &[u8]) ensures r@ == self.b@ { self.b.as_slice() }
    #[verifier::external_body]
    pub fn as_os_str(&self) -> (r: &OsStr) ensures r.b@ == self.b@ { unimplemented!() }
}
impl OsStr {
    pub fn len(&self) -> (r: usize) ensures r == self.b@.len() { self.b.len() }
    pub fn as_bytes(&self) -> (r: &[u8]) ensures r@ == self.b@ { self.b.as_slice() }
}
// `impl AsRef<OsStr>` arguments: a local trait of the same name shadows the prelude's (what matters is the bytes)
pub trait AsRef<T: ?Sized> {
    spec fn bytes(&self) -> Seq<u8>;
    fn as_ref(&self) -> (r: &OsStr) ensures r.b@ == self.bytes();
}
impl OsStr { pub fn to_owned(&self) -> (r: OsString) ensures r.b@ == self.b@ { OsString { b: self.b.clone() } } }
// argv / envp vectors prepared before the fork.  CVec::new (CString per element, NUL => EINVAL, pointer table) is outside Verus' reach
// (raw pointers); os_to_cstring is checked by a bounded Kani harness.
pub struct CVec { pub strings: Ghost<Seq<Seq<u8>>> }
pub open spec fn has_nul(s: Seq<u8>) -> bool { exists|i: int| 0 <= i < s.len() && s[i] == 0 }
impl CVec {
    #[verifier::external_body]
    pub fn new<A: AsRef<OsStr>>(slice: &[A]) -> (r: Result<CVec>)
        ensures
            r is Ok ==> r->Ok_0.strings@.len() == slice@.len() && forall|i: int| 0 <= i < slice@.len() ==> (#[trigger] r->Ok_0.strings@[i]) == slice@[i].bytes() && !has_nul(slice@[i].bytes()),
            (exists|i: int| 0 <= i < slice@.len() && has_nul((#[trigger] slice@[i]).bytes())) ==> r is Err,     // NUL => rejected, nothing is started
    { unimplemented!() }
}
// R6: `cmd.as_bytes().iter().any(|&b| b == b'/')`
pub open spec fn contains_slash(s: Seq<u8>) -> bool { exists|i: int| 0 <= i < s.len() && s[i] == 0x2f }
#[verifier::external_body]
pub fn has_slash(cmd: &OsString) -> (r: bool) ensures r == contains_slash(cmd.b@) { unimplemented!() }
// the parent's PATH (std::env::var_os("PATH")); R6: with `.and_then(|p| if p.len() == 0 { None } else { Some(p) })` folded in
pub uninterp spec fn env_path() -> Option<Seq<u8>>;
#[verifier::external_body]
pub fn nonempty_path_var() -> (r: Option<OsString>)
    ensures match env_path() { Some(p) => if p.len() == 0 { r.is_none() } else { r.is_some() && r.unwrap().b@ == p }, None => r.is_none() }
{ unimplemented!() }

// ---------------------------------------------------------------- PATH splitting, as data
// the non-empty, colon-free, maximal runs of a PATH value, in order; the real tokenizer (the closure inside split_path) is PROVED to
// yield exactly these, one per call, in unit splitpath
//@include segments.rs
pub open spec fn max_len(s: Seq<Seq<u8>>) -> nat decreases s.len() {
    if s.len() == 0 { 0 } else { let m = max_len(s.drop_last()); if s.last().len() > m { s.last().len() } else { m } }
}
pub proof fn lemma_max_len(s: Seq<Seq<u8>>, i: int)
    requires 0 <= i < s.len()
    ensures s[i].len() <= max_len(s)
    decreases s.len()
{
    if i < s.len() - 1 { lemma_max_len(s.drop_last(), i); }
}
// R6: the iterator returned by split_path (std::iter::from_fn over a closure cannot be given a Verus spec); `for dir in split_path(p)`
// is desugared to `loop { match it.next() { Some(dir) => .., None => break } }`
pub struct SplitPath<'a> { pub pos: Ghost<nat>, pub all: Ghost<Seq<Seq<u8>>>, pub p: core::marker::PhantomData<&'a ()> }
impl<'a> SplitPath<'a> {
    #[verifier::external_body]
    pub fn next(&mut self) -> (r: Option<&'a OsStr>)
        ensures
            final(self).all == old(self).all,
            old(self).pos@ >= old(self).all@.len() ==> r.is_none() && final(self).pos == old(self).pos,
            old(self).pos@ < old(self).all@.len() ==> r.is_some() && r.unwrap().b@ == old(self).all@[old(self).pos@ as int] && final(self).pos@ == old(self).pos@ + 1
                && r.unwrap().b@.len() <= max_len(old(self).all@),      // (a consequence of the line above: lemma_max_len)
    { unimplemented!() }
}
#[verifier::external_body]
pub fn split_path<'a>(path: &'a OsStr) -> (r: SplitPath<'a>)
    ensures r.pos@ == 0, r.all@ == segments(path.b@)
{ unimplemented!() }
// R6: the byte-string literal b"/" (Verus gives byte-string literals a length but no contents)
#[verifier::external_body]
pub fn slash() -> (r: &'static [u8]) ensures r@ == seq![0x2fu8] { unimplemented!() }
// R6: `split_path(p).map(OsStr::len).max().unwrap_or(0)`
#[verifier::external_body]
pub fn max_segment_len(path: &OsString) -> (r: usize) ensures r == max_len(segments(path.b@)) { unimplemented!() }

// ---------------------------------------------------------------- the preallocated buffer
// R6: `prealloc_exe: Vec<u8>` is represented by a buffer with an explicit capacity; growing it beyond the capacity is the only way the
// child could allocate here (std: a Vec does not reallocate while len <= capacity)
pub struct Buf { pub v: Vec<u8>, pub cap: Ghost<nat> }
impl Buf {
    #[verifier::external_body]
    pub fn with_capacity(n: usize) -> (r: Buf) ensures r.v@.len() == 0, r.cap@ >= n { unimplemented!() }
    pub fn truncate(&mut self, n: usize) requires n == 0 ensures final(self).v@.len() == 0, final(self).cap == old(self).cap { self.v.clear(); }
    pub fn extend_from_slice(&mut self, s: &[u8])
        requires old(self).v@.len() + s@.len() <= old(self).cap@,     // C17: no reallocation between fork and exec //[C17]
        ensures final(self).v@ == old(self).v@ + s@, final(self).cap == old(self).cap
    { self.v.extend_from_slice(s); }
    pub fn push(&mut self, x: u8)
        requires old(self).v@.len() + 1 <= old(self).cap@,           // C17 //[C17]
        ensures final(self).v@ == old(self).v@.push(x), final(self).cap == old(self).cap
    { self.v.push(x); }
    pub fn as_slice(&self) -> (r: &[u8]) ensures r@ == self.v@ { self.v.as_slice() }
}
// std::mem::take on the buffer: moves it out, leaves an empty one (no allocation: an empty Vec has none)
pub fn take_buf(b: &mut Buf) -> (r: Buf) ensures r == *old(b), final(b).v@.len() == 0
{ let mut e = Buf { v: Vec::new(), cap: Ghost(0) }; core::mem::swap(b, &mut e); e }

pub ghost struct EW { pub attempts: Seq<Seq<u8>>, pub last_err: Option<i32> }     // ...; the error code of the last failed exec     // the program paths handed to execve/execv so far, in order
pub tracked struct World { pub ghost s: EW }
