// PATH tokenizer world (trusted): byte-string plumbing of split_path
use vstd::prelude::*;
verus! {
pub struct OsStr { pub b: Vec<u8> }
impl OsStr {
    pub fn as_bytes(&self) -> (r: &[u8]) ensures r@ == self.b@ { self.b.as_slice() }
    pub fn is_empty(&self) -> (r: bool) ensures r == (self.b@.len() == 0) { self.b.len() == 0 }
    // OsStr::from_bytes: the same bytes seen as an OsStr
    #[verifier::external_body]
    pub fn from_bytes<'a>(s: &'a [u8]) -> (r: &'a OsStr) ensures r.b@ == s@ { unimplemented!() }
    // OsStr::new("")
    #[verifier::external_body]
    pub fn empty<'a>() -> (r: &'a OsStr) ensures r.b@.len() == 0 { unimplemented!() }
}
//@include segments.rs
// R6: `bytes.iter().position(|&c| c == b':')`: index of the first colon
#[verifier::external_body]
pub fn find_colon(bytes: &[u8]) -> (r: Option<usize>)
    ensures bytes@.len() <= usize::MAX, match r { Some(p) => p == first_colon(bytes@) && p < bytes@.len(), None => first_colon(bytes@) == bytes@.len() }
{ unimplemented!() }
