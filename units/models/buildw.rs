// Builder world (trusted): what Exec / Pipeline do on top of Popen::create.  Each started process ("stage") is recorded with
// the objects it was given; a Popen handed out by the model's create carries the index of its stage as pid.
// Everything marked external_body / axiom / uninterp is an assumption (listed in the evidence).
use vstd::prelude::*;
use std::rc::Rc;
verus! {

pub mod io {
    use vstd::prelude::*;
    pub struct Error { pub code: Option<i32> }
    impl core::fmt::Debug for Error { #[verifier::external_body] fn fmt(&self, f: &mut core::fmt::Formatter<'_>) -> core::fmt::Result { unimplemented!() } }
    pub type Result<T> = core::result::Result<T, Error>;
}
pub struct File { pub obj: Ghost<int> }
pub struct OsString { pub b: Vec<u8> }
pub struct OsStr { pub b: Vec<u8> }
impl OsStr { pub fn to_owned(&self) -> (r: OsString) ensures r.b@ == self.b@ { OsString { b: self.b.clone() } } }
impl Clone for OsString { fn clone(&self) -> (r: OsString) ensures r.b@ == self.b@ { OsString { b: self.b.clone() } } }
// `impl AsRef<OsStr>` arguments: a local trait of the same name shadows the prelude's; what matters about an argument is its bytes
pub trait AsRef<T: ?Sized> {
    spec fn bytes(&self) -> Seq<u8>;
    fn as_ref(&self) -> (r: &OsStr) ensures r.b@ == self.bytes();
}
impl AsRef<OsStr> for OsString {
    open spec fn bytes(&self) -> Seq<u8> { self.b@ }
    #[verifier::external_body] fn as_ref(&self) -> (r: &OsStr) { unimplemented!() }
}
impl AsRef<OsStr> for OsStr {
    open spec fn bytes(&self) -> Seq<u8> { self.b@ }
    fn as_ref(&self) -> (r: &OsStr) { self }
}
pub uninterp spec fn str_bytes(s: &str) -> Seq<u8>;     // the UTF-8 bytes of a string slice
impl AsRef<OsStr> for &str {
    open spec fn bytes(&self) -> Seq<u8> { str_bytes(*self) }
    #[verifier::external_body] fn as_ref(&self) -> (r: &OsStr) { unimplemented!() }
}
// the parent's environment when it is first needed (std::env::vars_os); assumed not to change concurrently
pub uninterp spec fn parent_env() -> Seq<(OsString, OsString)>;

//@source src/os_common.rs
//@enum ExitStatus derive=Clone,Copy

pub uninterp spec fn peer(obj: int) -> int;     // the other end of a pipe
pub uninterp spec fn dup_of(a: int, b: int) -> bool;   // a is a duplicate (File::try_clone, dup) of the open file b
impl File {
    #[verifier::external_body]
    pub fn try_clone(&self) -> (r: io::Result<File>) ensures r is Ok ==> dup_of(r->Ok_0.obj@, self.obj@) { unimplemented!() }
}

// what a started process was given for one of its standard streams
pub enum Given {
    Inherit,                 // nothing: the parent's own stream
    NewPipe(int),            // a fresh pipe; the argument is the object of the PARENT's end (exposed on the Popen)
    Obj(int),                // this open file (Redirection::File / RcFile)
    Merged,                  // merged onto the other output stream
}
pub ghost struct Stage { pub argv: Seq<Seq<u8>>, pub stdin: Given, pub stdout: Given, pub stderr: Given, pub detached: bool, pub reaped: bool }
pub ghost struct BW {
    pub stages: Seq<Stage>,          // every process started so far, in order
    pub inheritable: Set<int>,       // pipe ends the library created with make_pipe() that are open in the parent and NOT close-on-exec
    pub waits: nat,                  // blocking waits so far
    // pipe ends the LIBRARY still holds on behalf of an unfinished exchange: the read end of the shared stderr pipe made by
    // make_pipe(), and every end moved into a Communicator.  A child may be blocked on any of them (waiting for end-of-file on its
    // stdin, or writing into a pipe nobody reads), so nothing may be waited for while this set is non-empty (C12, C14).
    pub parked: Set<int>,
    // exchanges that ran to completion: unlimited Communicator::read calls that returned Ok (all input delivered, every captured
    // stream read to end-of-file: unit comm)
    pub full_reads: nat,
}
pub open spec fn no_parked(s: BW) -> bool { forall|o: int| !s.parked.contains(o) }
// every parked end is the one held in `f`
pub open spec fn parked_within(s: BW, f: Option<File>) -> bool { forall|o: int| #[trigger] s.parked.contains(o) ==> f.is_some() && o == f.unwrap().obj@ }
pub open spec fn opt_obj(f: Option<File>) -> Set<int> { match f { Some(x) => Set::<int>::empty().insert(x.obj@), None => Set::<int>::empty() } }
pub tracked struct World { pub ghost s: BW }

pub fn drop<T>(x: T) {}
