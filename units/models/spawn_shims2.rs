// ---- shims that need the extracted types (included after them) -- trusted
impl Popen {
    // Contract of Popen::drop (R8: drop_impl), PROVED in unit pstate against the process-state world and restated here in
    // spawn-world terms: a non-detached Running handle is waited for (blocking), anything else is left alone.
    // Simplification: the wait does not fail with an error other than ECHILD.
    #[verifier::external_body]
    pub fn drop_impl(&mut self, Tracked(w): Tracked<&mut World>)
        ensures final(w).img == old(w).img,
            (old(self).detached || !(old(self).child_state is Running)) ==> final(w).s == old(w).s,
            !old(self).detached && old(self).child_state is Running ==> final(w).s == (SW { child_unreaped: false, waits: old(w).s.waits + 1, ..old(w).s }),
    { unimplemented!() }
}
impl Popen {
    // Contract of os_wait, PROVED in unit pstate (blocking wait until the child is reaped or found reaped), in spawn-world terms.
    #[verifier::external_body]
    pub fn os_wait(&mut self, Tracked(w): Tracked<&mut World>) -> (r: Result<ExitStatus>)
        requires !old(w).s.in_child,
        ensures final(w).img == old(w).img,
            old(self).child_state is Running ==> final(w).s == (SW { child_unreaped: false, waits: old(w).s.waits + 1, ..old(w).s }) && !(final(self).child_state is Running) && !(final(self).child_state is Preparing),
            !(old(self).child_state is Running) ==> final(w).s == old(w).s && final(self).child_state == old(self).child_state,
            final(self).stdin == old(self).stdin, final(self).stdout == old(self).stdout, final(self).stderr == old(self).stderr, final(self).detached == old(self).detached,
    { unimplemented!() }
}
impl Popen {
    // Contract of PopenOsImpl::waitpid (unit pstate) in spawn-world terms: a blocking call reaps the child; a non-blocking one may find
    // it still running (nothing is reaped then)
    #[verifier::external_body]
    pub fn waitpid(&mut self, block: bool, Tracked(w): Tracked<&mut World>) -> (r: io::Result<()>)
        requires !old(w).s.in_child,
        ensures final(w).img == old(w).img,
            final(self).stdin == old(self).stdin, final(self).stdout == old(self).stdout, final(self).stderr == old(self).stderr, final(self).detached == old(self).detached,
            !(old(self).child_state is Running) ==> final(w).s == old(w).s && final(self).child_state == old(self).child_state,
            old(self).child_state is Running && block ==> final(w).s == (SW { child_unreaped: false, waits: old(w).s.waits + 1, ..old(w).s }) && !(final(self).child_state is Running) && !(final(self).child_state is Preparing),
            old(self).child_state is Running && !block ==> (final(w).s == old(w).s && final(self).child_state == old(self).child_state)
                || (final(w).s == (SW { child_unreaped: false, ..old(w).s }) && !(final(self).child_state is Running) && !(final(self).child_state is Preparing)),
    { unimplemented!() }
}
// R6: std conversions used by os_start / create, each the identity on the content
#[verifier::external_body]
pub fn opt_osstr(o: &Option<OsString>) -> (r: Option<&OsStr>)         // Option<OsString>::as_deref()
    ensures o.is_some() == r.is_some(), o.is_some() ==> r.unwrap().b@ == o.unwrap().b@
{ unimplemented!() }
#[verifier::external_body]
pub fn opt_cstr(o: &Option<CString>) -> (r: Option<&CStr>)            // Option<CString>::as_deref()
    ensures o.is_some() == r.is_some(), o.is_some() ==> r.unwrap().b@ == o.unwrap().b@
{ unimplemented!() }
#[verifier::external_body]
pub fn opt_vec(o: &Option<Vec<OsString>>) -> (r: Option<&Vec<OsString>>)   // Option<Vec<OsString>>::as_deref()
    ensures o.is_some() == r.is_some(), o.is_some() ==> r.unwrap()@ == o.unwrap()@
{ unimplemented!() }
// config.env.as_deref().map(format_env): format_env itself (last binding of each key wins) is checked by a bounded Kani harness
#[verifier::external_body]
pub fn format_env_opt(env: &Option<Vec<(OsString, OsString)>>, Tracked(w): Tracked<&World>) -> (r: Option<Vec<OsString>>)
    requires !w.s.in_child,      // C17: allocates //[C17]
    ensures r.is_some() == env.is_some()
{ unimplemented!() }
// argv.iter().map(|p| p.as_ref().to_owned()).collect()
#[verifier::external_body]
pub fn to_os_vec(argv: &[OsString]) -> (r: Vec<OsString>)
    ensures r@.len() == argv@.len(), posix::bytes_of(r@) == posix::bytes_of(argv@), forall|i: int| 0 <= i < argv@.len() ==> (#[trigger] r@[i]).b@ == argv@[i].b@
{ unimplemented!() }
// the parent (or the child) closes a descriptor it owns by dropping the File
#[verifier::external_body]
pub fn drop_file(f: File, Tracked(w): Tracked<&mut World>)
    ensures final(w).img == old(w).img,
        !old(w).s.in_child ==> final(w).s == (SW { inheritable: old(w).s.inheritable.remove(f.obj@), cloexec: old(w).s.cloexec.remove(f.obj@), ..old(w).s }),
        old(w).s.in_child ==> final(w).s == (SW { closed_in_child: old(w).s.closed_in_child.insert(f.obj@), ..old(w).s }),
{ unimplemented!() }
