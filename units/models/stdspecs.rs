// ================================================================ specifications of std functions that vstd lacks (trusted, documented std behaviour)
pub assume_specification<T, E>[core::result::Result::<T, E>::unwrap_or](r: core::result::Result<T, E>, d: T) -> (out: T)
    where E: core::marker::Destruct, T: core::marker::Destruct
    ensures out == (match r { Ok(t) => t, Err(_) => d });
