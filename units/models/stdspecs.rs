// ================================================================ specifications of std functions that vstd lacks (trusted, documented std behaviour)
pub assume_specification<T, E>[core::result::Result::<T, E>::unwrap_or](r: core::result::Result<T, E>, d: T) -> (out: T)
    where E: core::marker::Destruct, T: core::marker::Destruct
    ensures out == (match r { Ok(t) => t, Err(_) => d });
pub assume_specification<T: Clone>[<[T]>::to_vec](s: &[T]) -> (r: Vec<T>)
    ensures r@.len() == s@.len(), forall|i: int| 0 <= i < s@.len() ==> vstd::pervasive::cloned(s@[i], #[trigger] r@[i]);
