// Platform types used by the cfg(windows) command-line code, reduced to what that code uses: an OsString is a vector of UTF-16 code
// units (that is what encode_wide()/from_wide() expose on Windows).  TRUSTED (std contracts): encode_wide() yields the units in order;
// Iterator::any(f) is true iff f is true of some element; collect() gathers them; Vec::extend(iter) appends them; from_wide copies.
pub mod io {
    use vstd::prelude::*;
    pub struct Error { pub code: i32 }
    impl Error {
        pub fn from_raw_os_error(code: i32) -> (e: Error) ensures e.code == code { Error { code } }
    }
    pub type Result<T> = core::result::Result<T, Error>;
}
pub mod win32 { pub const ERROR_BAD_PATHNAME: u32 = 161; }

pub struct OsString { pub w: Vec<u16> }
pub type OsStr = OsString;
pub struct EncodeWide<'a> { pub s: &'a Vec<u16> }

impl OsString {
    pub fn encode_wide(&self) -> (it: EncodeWide<'_>) ensures it.s@ == self.w@ { EncodeWide { s: &self.w } }
    pub fn is_empty(&self) -> (r: bool) ensures r == (self.w@.len() == 0) { self.w.len() == 0 }
    #[verifier::external_body]
    pub fn from_wide(wide: &Vec<u16>) -> (r: OsString) ensures r.w@ == wide@ { OsString { w: wide.clone() } }
}
impl<'a> EncodeWide<'a> {
    #[verifier::external_body]
    pub fn any<F: Fn(u16) -> bool>(self, f: F) -> (r: bool)
        requires forall|c: u16| f.requires((c,)),
        ensures
            r ==> exists|i: int| 0 <= i < self.s@.len() && f.ensures((#[trigger] self.s@[i],), true),
            !r ==> forall|i: int| 0 <= i < self.s@.len() ==> f.ensures((#[trigger] self.s@[i],), false),
    { self.s.iter().any(|c| f(*c)) }
    #[verifier::external_body]
    pub fn collect(self) -> (v: Vec<u16>) ensures v@ == self.s@ { self.s.clone() }
}
#[verifier::external_body]
pub fn extend_wide(v: &mut Vec<u16>, it: EncodeWide<'_>) ensures final(v)@ == old(v)@ + it.s@ { v.extend(it.s.iter().copied()) }


pub open spec fn views(v: Seq<OsString>) -> Seq<Seq<u16>> { Seq::new(v.len(), |i: int| v[i].w@) }
pub open spec fn has_nul(a: Seq<u16>) -> bool { exists|i: int| 0 <= i < a.len() && #[trigger] a[i] == 0 }
/// i32 arithmetic on the backslash count: `num_backslashes * 2 + 1` must fit (CreateProcessW itself limits a command line to 32767 units)
pub const MAX_ARG: usize = 0x3fff_ffff;
