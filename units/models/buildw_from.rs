// From<Redirection> for InputRedirection: wraps the redirection, and panics for Merge ("only allowed for output streams").
// A trait method cannot carry a precondition in Verus, so the body is not verified here; the callers' contracts (in_ok) exclude Merge.
impl From<Redirection> for InputRedirection { #[verifier::external_body] fn from(r: Redirection) -> (res: Self) { unimplemented!() } }
// the null device, as NullFile opens it: R6 `OpenOptions::new().read(true).open(NULL_DEVICE).unwrap()` = open_null_device_read(),
// `...write(true)...` = open_null_device_write().  That the device exists and can be opened is assumed (otherwise the documented panic)
pub struct NullFile;
pub uninterp spec fn is_null_device(obj: int) -> bool;
pub uninterp spec fn opened_for(obj: int) -> (bool, bool);      // (reading, writing)
#[verifier::external_body]
pub fn open_null_device(read: bool, write: bool) -> (f: File)
    ensures is_null_device(f.obj@), opened_for(f.obj@) == (read, write)
{ unimplemented!() }
pub fn open_null_device_read() -> (f: File) ensures is_null_device(f.obj@), opened_for(f.obj@) == (true, false) { open_null_device(true, false) }
pub fn open_null_device_write() -> (f: File) ensures is_null_device(f.obj@), opened_for(f.obj@) == (false, true) { open_null_device(false, true) }
