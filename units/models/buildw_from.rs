// From<Redirection> for InputRedirection: wraps the redirection, and panics for Merge ("only allowed for output streams").
// A trait method cannot carry a precondition in Verus, so the body is not verified here; the callers' contracts (in_ok) exclude Merge.
impl From<Redirection> for InputRedirection { #[verifier::external_body] fn from(r: Redirection) -> (res: Self) { unimplemented!() } }
