// ================================================================ time shims
#[derive(Clone, Copy)]
pub struct Duration { pub ns: u128 }
#[derive(Clone, Copy)]
pub struct Instant { pub t: u128 }
impl SubSpecImpl<Instant> for Instant {
    open spec fn obeys_sub_spec() -> bool { true }
    open spec fn sub_req(self, rhs: Instant) -> bool { self.t >= rhs.t }
    open spec fn sub_spec(self, rhs: Instant) -> Duration { Duration { ns: (self.t - rhs.t) as u128 } }
}
impl core::ops::Sub<Instant> for Instant {
    type Output = Duration;
    fn sub(self, rhs: Instant) -> Duration { Duration { ns: self.t - rhs.t } }
}
impl PartialEqSpecImpl for Instant {
    open spec fn obeys_eq_spec() -> bool { true }
    open spec fn eq_spec(&self, other: &Instant) -> bool { self.t == other.t }
}
impl core::cmp::PartialEq for Instant { fn eq(&self, other: &Instant) -> bool { self.t == other.t } }
impl PartialOrdSpecImpl for Instant {
    open spec fn obeys_partial_cmp_spec() -> bool { true }
    open spec fn partial_cmp_spec(&self, other: &Instant) -> Option<core::cmp::Ordering> {
        if self.t < other.t { Some(core::cmp::Ordering::Less) } else if self.t == other.t { Some(core::cmp::Ordering::Equal) } else { Some(core::cmp::Ordering::Greater) }
    }
}
impl core::cmp::PartialOrd for Instant {
    fn partial_cmp(&self, other: &Instant) -> Option<core::cmp::Ordering> {
        if self.t < other.t { Some(core::cmp::Ordering::Less) } else if self.t == other.t { Some(core::cmp::Ordering::Equal) } else { Some(core::cmp::Ordering::Greater) }
    }
}
impl Duration {
    pub fn from_secs(s: u64) -> (d: Duration) ensures d.ns == s * 1_000_000_000 { Duration { ns: s as u128 * 1_000_000_000 } }
    pub fn as_millis(&self) -> (r: u128) ensures r == self.ns / 1_000_000 { self.ns / 1_000_000 }
}
impl AddSpecImpl<Duration> for Instant {
    open spec fn obeys_add_spec() -> bool { true }
    open spec fn add_req(self, rhs: Duration) -> bool { self.t + rhs.ns <= u128::MAX }   // std panics on overflow
    open spec fn add_spec(self, rhs: Duration) -> Instant { Instant { t: (self.t + rhs.ns) as u128 } }
}
impl core::ops::Add<Duration> for Instant {
    type Output = Instant;
    fn add(self, rhs: Duration) -> Instant { Instant { t: self.t + rhs.ns } }
}
impl Instant {
    #[verifier::external_body]
    pub fn now(Tracked(w): Tracked<&World>) -> (r: Instant) ensures r.t == w.s.now { unimplemented!() }
}
pub open spec fn floor_ms_ns(d: Duration) -> nat { ((d.ns as nat) / 1_000_000) * 1_000_000 }

impl Duration {
    pub fn from_millis(ms: u64) -> (d: Duration) ensures d.ns == ms * 1_000_000 { Duration { ns: ms as u128 * 1_000_000 } }
}
impl Instant {
    // std: saturating (returns zero when `earlier` is later than self)
    pub fn duration_since(&self, earlier: Instant) -> (d: Duration)
        ensures d.ns == (if self.t >= earlier.t { self.t - earlier.t } else { 0 }) as u128
    { if self.t >= earlier.t { Duration { ns: self.t - earlier.t } } else { Duration { ns: 0 } } }
}
impl MulSpecImpl<u32> for Duration {
    open spec fn obeys_mul_spec() -> bool { true }
    open spec fn mul_req(self, rhs: u32) -> bool { self.ns * rhs <= u128::MAX }   // std panics on overflow
    open spec fn mul_spec(self, rhs: u32) -> Duration { Duration { ns: (self.ns * rhs) as u128 } }
}
impl core::ops::Mul<u32> for Duration {
    type Output = Duration;
    fn mul(self, rhs: u32) -> Duration { Duration { ns: self.ns * (rhs as u128) } }
}
impl PartialEqSpecImpl for Duration {
    open spec fn obeys_eq_spec() -> bool { true }
    open spec fn eq_spec(&self, other: &Duration) -> bool { self.ns == other.ns }
}
impl core::cmp::PartialEq for Duration { fn eq(&self, other: &Duration) -> bool { self.ns == other.ns } }
impl PartialOrdSpecImpl for Duration {
    open spec fn obeys_partial_cmp_spec() -> bool { true }
    open spec fn partial_cmp_spec(&self, other: &Duration) -> Option<core::cmp::Ordering> {
        if self.ns < other.ns { Some(core::cmp::Ordering::Less) } else if self.ns == other.ns { Some(core::cmp::Ordering::Equal) } else { Some(core::cmp::Ordering::Greater) }
    }
}
impl core::cmp::PartialOrd for Duration {
    fn partial_cmp(&self, other: &Duration) -> Option<core::cmp::Ordering> {
        if self.ns < other.ns { Some(core::cmp::Ordering::Less) } else if self.ns == other.ns { Some(core::cmp::Ordering::Equal) } else { Some(core::cmp::Ordering::Greater) }
    }
}
