// ---- what the PATH entries are (C15: "the non-empty entries of PATH, in order")
pub open spec fn first_colon(s: Seq<u8>) -> nat decreases s.len() {
    if s.len() == 0 { 0 } else if s[0] == 0x3a { 0 } else { 1 + first_colon(s.drop_first()) }
}
pub open spec fn segments(s: Seq<u8>) -> Seq<Seq<u8>> decreases s.len() {
    if s.len() == 0 { Seq::<Seq<u8>>::empty() } else {
        let k = first_colon(s) as int;
        if k >= s.len() { seq![s] }
        else if k == 0 { segments(s.subrange(1, s.len() as int)) }
        else { seq![s.subrange(0, k)] + segments(s.subrange(k + 1, s.len() as int)) }
    }
}
pub proof fn lemma_first_colon(s: Seq<u8>)
    ensures 0 <= first_colon(s) <= s.len(), first_colon(s) < s.len() ==> s[first_colon(s) as int] == 0x3a,
        forall|i: int| 0 <= i < first_colon(s) ==> s[i] != 0x3a,
    decreases s.len()
{
    if s.len() > 0 && s[0] != 0x3a {
        lemma_first_colon(s.drop_first());
        assert forall|i: int| 0 <= i < first_colon(s) implies s[i] != 0x3a by { if i > 0 { assert(s[i] == s.drop_first()[i - 1]); } }
    }
}
