// Quoting world (trusted): std string plumbing of display_escape
use vstd::prelude::*;
verus! {
// Cow<'_, str> as returned by display_escape
pub enum Cow<'a> { Borrowed(&'a str), Owned(String) }
pub open spec fn cow_view(c: Cow<'_>) -> Seq<char> { match c { Cow::Borrowed(s) => s@, Cow::Owned(s) => s@ } }

// ---- what a POSIX shell makes of the two shapes display_escape produces (the oracle; validated against the real /bin/sh by the
// bounded scenario c19_shell_roundtrip)
pub open spec fn nice(c: char) -> bool {
    c == '-' || c == '_' || c == '.' || c == ',' || c == '/' || ('0' <= c <= '9') || ('a' <= c <= 'z') || ('A' <= c <= 'Z')
}
pub open spec fn all_nice(s: Seq<char>) -> bool { forall|i: int| 0 <= i < s.len() ==> nice(#[trigger] s[i]) }
// single-quoting: every ' inside becomes '\'' and the whole is wrapped in '...'
pub open spec fn esc(s: Seq<char>) -> Seq<char> decreases s.len() {
    if s.len() == 0 { seq![] } else if s[0] == '\'' { seq!['\'', '\\', '\'', '\''] + esc(s.drop_first()) } else { seq![s[0]] + esc(s.drop_first()) }
}
pub open spec fn squote(s: Seq<char>) -> Seq<char> { seq!['\''] + esc(s) + seq!['\''] }
// w is a shell word that evaluates to exactly s: a non-empty run of characters without any special meaning, or the single-quoted form
pub open spec fn shell_word_for(w: Seq<char>, s: Seq<char>) -> bool {
    (w.len() > 0 && all_nice(w) && w == s) || w == squote(s)
}
// R6: `format!("'{}'", s.replace("'", r#"'\''"#))`
#[verifier::external_body]
pub fn fmt_squote_replaced(s: &str) -> (r: String) ensures r@ == squote(s@) { unimplemented!() }
// std: char::is_ascii_alphanumeric
#[verifier::external_body]
pub fn is_ascii_alphanumeric(c: char) -> (r: bool) ensures r == (('0' <= c <= '9') || ('a' <= c <= 'z') || ('A' <= c <= 'Z')) { unimplemented!() }
// R6: `s.chars().all(f)` for a predicate given as a function item
#[verifier::external_body]
pub fn str_all(s: &str, f: impl Fn(char) -> bool) -> (r: bool)
    requires forall|c: char| f.requires((c,)),
    ensures r == (forall|i: int| 0 <= i < s@.len() ==> f.ensures((#[trigger] s@[i],), true)),
        (forall|c: char| (f.ensures((c,), true) || f.ensures((c,), false)) && !(f.ensures((c,), true) && f.ensures((c,), false))) ==> true,
{ unimplemented!() }
#[verifier::external_body]
pub fn str_is_empty(s: &str) -> (r: bool) ensures r == (s@.len() == 0) { unimplemented!() }
