// Quoting world (trusted): std string plumbing of display_escape
use vstd::prelude::*;
verus! {
// Cow<'_, str> as returned by display_escape
pub enum Cow<'a> { Borrowed(&'a str), Owned(String) }
pub open spec fn cow_view(c: Cow<'_>) -> Seq<char> { match c { Cow::Borrowed(s) => s@, Cow::Owned(s) => s@ } }

// ---- what a POSIX shell makes of the two shapes display_escape produces (the oracle; validated against the real /bin/sh by the
// bounded scenario c19_shell_roundtrip)
pub open spec fn nice(c: char) -> bool {
    c == '-' || c == '_' || c == '.' || c == ',' || c == '/' || ('0' <= c <= '9') || ('a' <= c <= 'z') || ('A' <= c <= 'Z')
}
pub open spec fn all_nice(s: Seq<char>) -> bool { forall|i: int| 0 <= i < s.len() ==> nice(#[trigger] s[i]) }
// single-quoting: every ' inside becomes '\'' and the whole is wrapped in '...'
pub open spec fn esc(s: Seq<char>) -> Seq<char> decreases s.len() {
    if s.len() == 0 { seq![] } else if s[0] == '\'' { seq!['\'', '\\', '\'', '\''] + esc(s.drop_first()) } else { seq![s[0]] + esc(s.drop_first()) }
}
pub open spec fn squote(s: Seq<char>) -> Seq<char> { seq!['\''] + esc(s) + seq!['\''] }
// w is a shell word that evaluates to exactly s: a non-empty run of characters without any special meaning, or the single-quoted form
pub open spec fn shell_word_for(w: Seq<char>, s: Seq<char>) -> bool {
    (w.len() > 0 && all_nice(w) && w == s) || w == squote(s)
}
// R6: `format!("'{}'", s.replace("'", r#"'\''"#))`
#[verifier::external_body]
pub fn fmt_squote_replaced(s: &str) -> (r: String) ensures r@ == squote(s@) { unimplemented!() }
// std: char::is_ascii_alphanumeric
#[verifier::external_body]
pub fn is_ascii_alphanumeric(c: char) -> (r: bool) ensures r == (('0' <= c <= '9') || ('a' <= c <= 'z') || ('A' <= c <= 'Z')) { unimplemented!() }
// R6: `s.chars().all(f)` for a predicate given as a function item
#[verifier::external_body]
pub fn str_all(s: &str, f: impl Fn(char) -> bool) -> (r: bool)
    requires forall|c: char| f.requires((c,)),
    ensures
        // true: every call returned true; false: some call returned false (what a call returns satisfies the predicate's postcondition)
        r ==> (forall|i: int| 0 <= i < s@.len() ==> f.ensures((#[trigger] s@[i],), true)),
        !r ==> (exists|i: int| 0 <= i < s@.len() && f.ensures((#[trigger] s@[i],), false)),
{ unimplemented!() }
#[verifier::external_body]
pub fn str_is_empty(s: &str) -> (r: bool) ensures r == (s@.len() == 0) { unimplemented!() }

// ---- to_cmdline_lossy: the text the function must produce, written as recursive spec functions over the command description
// the word display_escape must return for s (the postcondition of display_escape pins the code to it; that it is a shell word for s
// is lemma_quote_of_is_shell_word below)
pub open spec fn quote_of(s: Seq<char>) -> Seq<char> { if s.len() > 0 && all_nice(s) { s } else { squote(s) } }
pub proof fn lemma_quote_of_is_shell_word(s: Seq<char>) ensures shell_word_for(quote_of(s), s) {}
// OsString: its bytes; to_string_lossy is the (uninterpreted) lossy decoding -- the property speaks about valid Unicode only, where it
// is the identity
pub struct OsString { pub b: Seq<u8> }
impl OsString {
    pub uninterp spec fn lossy(&self) -> Seq<char>;
    #[verifier::external_body]
    pub fn to_string_lossy(&self) -> (r: Cow<'_>) ensures cow_view(r) == self.lossy() { unimplemented!() }
}
// R6: `&cow` used where a &str is expected (Deref of Cow<str>)
#[verifier::external_body]
pub fn cow_str<'a>(c: &'a Cow<'a>) -> (r: &'a str) ensures r@ == cow_view(*c) { unimplemented!() }
// the configuration, reduced to the one field to_cmdline_lossy reads
pub struct PopenConfig { pub env: Option<Vec<(OsString, OsString)>> }
pub type EnvList = Seq<(OsString, OsString)>;
// a HashMap collected from a list of pairs: the last entry of a name wins; membership is membership in the list
pub open spec fn lookup(e: EnvList, k: OsString) -> Option<OsString> decreases e.len() {
    if e.len() == 0 { None } else if e.last().0 == k { Some(e.last().1) } else { lookup(e.drop_last(), k) }
}
pub open spec fn has_key(e: EnvList, k: OsString) -> bool { exists|i: int| 0 <= i < e.len() && (#[trigger] e[i]).0 == k }
#[verifier::external_body]
#[verifier::reject_recursive_types(K)]
#[verifier::reject_recursive_types(V)]
pub struct HashMap<K, V> { k: core::marker::PhantomData<(K, V)> }
impl<'a> HashMap<&'a OsString, &'a OsString> {
    pub uninterp spec fn src(&self) -> EnvList;
    #[verifier::external_body]
    pub fn contains_key(&self, k: &OsString) -> (r: bool) ensures r == has_key(self.src(), *k) { unimplemented!() }
}
// R6: `v.iter().map(|(x, y)| (x, y)).collect()` into a HashMap<&OsString, &OsString>
#[verifier::external_body]
pub fn ref_map<'a>(v: &'a Vec<(OsString, OsString)>) -> (r: HashMap<&'a OsString, &'a OsString>) ensures r.src() == v@ { unimplemented!() }
// R6: `m.get(&k) == Some(&v)`
#[verifier::external_body]
pub fn map_has<'a>(m: &HashMap<&'a OsString, &'a OsString>, k: &OsString, v: &OsString) -> (r: bool) ensures r == (lookup(m.src(), *k) == Some(*v)) { unimplemented!() }
// the environment of the calling process (R6: `env::vars_os().collect()`)
pub uninterp spec fn process_env() -> EnvList;
#[verifier::external_body]
pub fn env_vars_os_vec() -> (r: Vec<(OsString, OsString)>) ensures r@ == process_env() { unimplemented!() }
// R6: `for (k, v) in &vec` / `for (k, _) in vec` are desugared to loop { match it.next() .. } (Verus for-loops do not support `continue`)
pub struct PairsIter<'a> { pub pos: Ghost<nat>, pub all: Ghost<EnvList>, pub p: core::marker::PhantomData<&'a ()> }
impl<'a> PairsIter<'a> {
    #[verifier::external_body]
    pub fn next(&mut self) -> (r: Option<(&'a OsString, &'a OsString)>)
        ensures final(self).all == old(self).all,
            old(self).pos@ >= old(self).all@.len() ==> r.is_none() && final(self).pos == old(self).pos,
            old(self).pos@ < old(self).all@.len() ==> r.is_some() && *r.unwrap().0 == old(self).all@[old(self).pos@ as int].0
                && *r.unwrap().1 == old(self).all@[old(self).pos@ as int].1 && final(self).pos@ == old(self).pos@ + 1,
    { unimplemented!() }
}
pub struct IntoPairsIter { pub pos: Ghost<nat>, pub all: Ghost<EnvList> }
impl IntoPairsIter {
    #[verifier::external_body]
    pub fn next(&mut self) -> (r: Option<(OsString, OsString)>)
        ensures final(self).all == old(self).all,
            old(self).pos@ >= old(self).all@.len() ==> r.is_none() && final(self).pos == old(self).pos,
            old(self).pos@ < old(self).all@.len() ==> r.is_some() && r.unwrap() == old(self).all@[old(self).pos@ as int] && final(self).pos@ == old(self).pos@ + 1,
    { unimplemented!() }
}
#[verifier::external_body]
pub fn pairs_iter<'a>(v: &'a Vec<(OsString, OsString)>) -> (r: PairsIter<'a>) ensures r.pos@ == 0, r.all@ == v@ { unimplemented!() }
#[verifier::external_body]
pub fn into_pairs_iter(v: Vec<(OsString, OsString)>) -> (r: IntoPairsIter) ensures r.pos@ == 0, r.all@ == v@ { unimplemented!() }

// the arguments: each preceded by one blank, each quoted
pub open spec fn args_text_n(a: Seq<OsString>, n: int) -> Seq<char> decreases n {
    if n <= 0 { seq![] } else { args_text_n(a, n - 1) + seq![' '] + quote_of(a[n - 1].lossy()) }
}
pub open spec fn args_text(a: Seq<OsString>) -> Seq<char> { args_text_n(a, a.len() as int) }
// the environment prefix: NAME=VALUE for every listed variable that differs from the calling process's, then NAME= for every variable
// of the calling process that is not listed; each followed by one blank, names and values quoted
pub open spec fn env_set_n(e: EnvList, cur: EnvList, n: int) -> Seq<char> decreases n {
    if n <= 0 { seq![] } else {
        env_set_n(e, cur, n - 1) + (if lookup(cur, e[n - 1].0) == Some(e[n - 1].1) { seq![] } else { quote_of(e[n - 1].0.lossy()) + seq!['='] + quote_of(e[n - 1].1.lossy()) + seq![' '] })
    }
}
pub open spec fn env_unset_n(e: EnvList, cur: EnvList, n: int) -> Seq<char> decreases n {
    if n <= 0 { seq![] } else {
        env_unset_n(e, cur, n - 1) + (if has_key(e, cur[n - 1].0) { seq![] } else { quote_of(cur[n - 1].0.lossy()) + seq!['=', ' '] })
    }
}
pub open spec fn env_text(e: Option<Vec<(OsString, OsString)>>) -> Seq<char> {
    match e { None => seq![], Some(v) => env_set_n(v@, process_env(), v@.len() as int) + env_unset_n(v@, process_env(), process_env().len() as int) }
}

// ---- the Debug impls: `Exec { <command line> }` and `Pipeline { <command line> | <command line> ... }`
pub mod fmt {
    use vstd::prelude::*;
    // a Formatter is the text written to it so far
    pub struct Formatter<'a> { pub out: Ghost<Seq<char>>, pub p: core::marker::PhantomData<&'a ()> }
    pub struct Error;
    pub type Result = core::result::Result<(), Error>;
}
pub open spec fn braced(name: Seq<char>, inner: Seq<char>) -> Seq<char> { name + seq![' ', '{', ' '] + inner + seq![' ', '}'] }
// R6: `write!(f, "NAME {{ {} }}", inner)`: NAME, a blank, an opening brace, a blank, the text, a blank, a closing brace
#[verifier::external_body]
pub fn write_braced(f: &mut fmt::Formatter<'_>, name: &str, inner: &str) -> (r: fmt::Result)
    ensures r is Ok ==> final(f).out@ == old(f).out@ + braced(name@, inner@), r is Err ==> true,
{ unimplemented!() }
// R6: `<[String]>::join(sep)`
pub open spec fn join_n(v: Seq<Seq<char>>, sep: Seq<char>, n: int) -> Seq<char> decreases n {
    if n <= 0 { seq![] } else if n == 1 { v[0] } else { join_n(v, sep, n - 1) + sep + v[n - 1] }
}
pub open spec fn views_of(v: Seq<String>) -> Seq<Seq<char>> { Seq::new(v.len(), |i: int| v[i]@) }
#[verifier::external_body]
pub fn join_strings(v: &Vec<String>, sep: &str) -> (r: String)
    ensures r@ == join_n(views_of(v@), sep@, v@.len() as int)
{ unimplemented!() }
// the pipeline, reduced to the field its Debug impl reads
pub struct Pipeline { pub cmds: Vec<Exec> }
// the printable command line of one command (what to_cmdline_lossy is proved to return)
pub open spec fn cmdline_text(e: Exec) -> Seq<char> { env_text(e.config.env) + quote_of(e.command.lossy()) + args_text(e.args@) }
pub open spec fn texts_of(cmds: Seq<Exec>) -> Seq<Seq<char>> { Seq::new(cmds.len(), |i: int| cmdline_text(cmds[i])) }
