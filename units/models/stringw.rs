// ================================================================ std text decoding used by the text-returning variants (trusted std contracts)
// the lossy UTF-8 decoding of a byte string (std::string::String::from_utf8_lossy), as a function of the bytes
pub uninterp spec fn lossy(b: Seq<u8>) -> Seq<char>;
pub uninterp spec fn valid_utf8(b: Seq<u8>) -> bool;
pub struct FromUtf8Error { pub bytes: Vec<u8> }
impl FromUtf8Error { pub fn as_bytes(&self) -> (r: &[u8]) ensures r@ == self.bytes@ { self.bytes.as_slice() } }
pub struct Lossy { pub s: String }      // what String::from_utf8_lossy returns (a Cow<str>)
impl Lossy { pub fn into(self) -> (r: String) ensures r@ == self.s@ { self.s } }
pub struct StringM;
impl StringM {
    // String::from_utf8: Ok with the same text iff the bytes are valid UTF-8 (then lossy decoding changes nothing); Err gives the bytes back
    #[verifier::external_body]
    pub fn from_utf8(v: Vec<u8>) -> (r: core::result::Result<String, FromUtf8Error>)
        ensures match r { Ok(s) => valid_utf8(v@) && s@ == lossy(v@), Err(e) => !valid_utf8(v@) && e.bytes@ == v@ }
    { unimplemented!() }
    #[verifier::external_body]
    pub fn from_utf8_lossy(b: &[u8]) -> (r: Lossy) ensures r.s@ == lossy(b@) { unimplemented!() }
}
// R6: `s.as_bytes().to_vec()`: the UTF-8 bytes of a string slice, copied
pub uninterp spec fn str_bytes(s: &str) -> Seq<u8>;
#[verifier::external_body]
pub fn str_to_vec(s: &str) -> (r: Vec<u8>) ensures r@ == str_bytes(s) { unimplemented!() }
