//@unit pstate
//@include models/procstate.rs
//@thread posix::waitpid posix::kill .waitpid .os_wait .os_wait_timeout .wait .wait_timeout .send_signal .os_terminate .os_kill .poll thread::sleep Instant::now:ro

//@source src/popen.rs
use std::result;
//@enum PopenError
impl vstd::std_specs::convert::FromSpecImpl<io::Error> for PopenError {
    open spec fn obeys_from_spec() -> bool { true }
    open spec fn from_spec(v: io::Error) -> Self { PopenError::IoError(v) }
}
impl From<io::Error> for PopenError {
//@fn impl(From<io::Error>+for+PopenError)::from
//@end
}
//@item Result
pub mod os {
//@item os[unix]::ExtChildState
}
//@enum ChildState
use ChildState::*;
//@struct Popen pubfields

// ---------------------------------------------------------------- representation invariant: what the handle believes vs. what is true
pub open spec fn popen_wf(p: Popen, w: PS) -> bool {
    match p.child_state {
        ChildState::Preparing => false,
        ChildState::Running { pid, ext } => pid == w.pid && !w.observed && !(w.kernel is Reaped),
        // a status is held only once the child is really dead, and it is the true one -- or Undetermined if somebody else reaped it
        ChildState::Finished(st) => w.observed && ((w.kernel is Reaped && st == w.fate && proper(st)) || (w.kernel is Gone && st == ExitStatus::Undetermined)),
    }
}
pub open spec fn is_finished(p: Popen) -> bool { p.child_state is Finished }
pub open spec fn status_of(p: Popen) -> Option<ExitStatus> { match p.child_state { ChildState::Finished(st) => Some(st), _ => None } }
// once finished, nothing changes any more and nothing is asked of the OS
pub open spec fn final_is_final(p0: Popen, p1: Popen, w0: PS, w1: PS) -> bool {
    is_finished(p0) ==> p1.child_state == p0.child_state && w1 == w0
}
pub open spec fn frame(p0: Popen, p1: Popen) -> bool { p1.stdin == p0.stdin && p1.stdout == p0.stdout && p1.stderr == p0.stderr && p1.detached == p0.detached }

impl Popen {
//@fn Popen::detach
    ensures final(self).detached, final(self).child_state == old(self).child_state, final(self).stdin == old(self).stdin, final(self).stdout == old(self).stdout, final(self).stderr == old(self).stderr,
//@end
//@fn Popen::pid
    ensures r == (match self.child_state { ChildState::Running { pid, ext } => Some(pid), _ => None::<u32> }), //[C09]
//@end
//@fn Popen::exit_status
    ensures r == status_of(*self), //[C09]
//@end

// ---- trait PopenOsImpl / PopenOs / PopenExt methods, emitted as inherent methods (one impl per platform)
//@fn os[unix]::impl(PopenOsImpl+for+Popen)::waitpid world=mut
    requires popen_wf(*old(self), old(w).s),
    ensures
        popen_wf(*final(self), final(w).s), frame(*old(self), *final(self)),
        final_is_final(*old(self), *final(self), old(w).s, final(w).s), //[C09]
        final(w).s.kills == old(w).s.kills, final(w).s.n_sleep == old(w).s.n_sleep, final(w).s.wait_deadline == old(w).s.wait_deadline,
        final(w).s.pid == old(w).s.pid, final(w).s.fate == old(w).s.fate,
        final(w).s.now >= old(w).s.now, clock_ok(old(w).s) ==> clock_ok(final(w).s),
        !is_finished(*old(self)) ==> final(w).s.fresh && final(w).s.n_waitpid == old(w).s.n_waitpid + 1 && final(w).s.n_blocking == old(w).s.n_blocking + (if block { 1nat } else { 0nat }),
        // a blocking wait that succeeds leaves the handle finished
        block && r is Ok ==> is_finished(*final(self)),
        // if somebody else reaped the child the result is Undetermined, not an error
        r is Err ==> !is_finished(*final(self)) && r->Err_0.code != Some(posix::ECHILD), //[C09]
//@end

//@fn os[unix]::impl(super::PopenOs+for+Popen)::os_wait world=mut
//@attr #[verifier::loop_isolation(false)]
    requires popen_wf(*old(self), old(w).s),
    ensures
        popen_wf(*final(self), final(w).s), frame(*old(self), *final(self)),
        final_is_final(*old(self), *final(self), old(w).s, final(w).s), //[C09]
        final(w).s.kills == old(w).s.kills, final(w).s.n_sleep == old(w).s.n_sleep,
        // Ok means: finished, and the value is the recorded status
        r is Ok ==> status_of(*final(self)) == Some(r->Ok_0), //[C09]
        r is Err ==> !is_finished(*final(self)) && final(w).s.n_blocking > old(w).s.n_blocking,
//@loop 0
        invariant popen_wf(*self, w.s), frame(*old(self), *self), final_is_final(*old(self), *self, old(w).s, w.s),
            w.s.kills == old(w).s.kills, w.s.n_sleep == old(w).s.n_sleep, w.s.n_blocking >= old(w).s.n_blocking,
        decreases (if is_finished(*self) { 0nat } else { 1nat }),
//@end

//@fn os[unix]::impl(super::PopenOs+for+Popen)::os_wait_timeout world=mut
//@attr #[verifier::loop_isolation(false)]
    requires popen_wf(*old(self), old(w).s), clock_ok(old(w).s), dur.ns < 0x1_0000_0000_0000_0000_0000_0000,
    ensures
        popen_wf(*final(self), final(w).s), frame(*old(self), *final(self)),
        final_is_final(*old(self), *final(self), old(w).s, final(w).s), //[C09,C11]
        final(w).s.kills == old(w).s.kills, final(w).s.n_blocking == old(w).s.n_blocking, //[C11]
        r is Ok ==> r->Ok_0 == status_of(*final(self)), //[C09]
        r is Err ==> !is_finished(*final(self)),
        // "still running" is reported no earlier than dur after the call
        r is Ok && r->Ok_0.is_none() ==> final(w).s.now >= old(w).s.now + dur.ns, //[C11]
        // ... and only straight after a status check: never on the strength of a check made before the last sleep
        r is Ok && r->Ok_0.is_none() ==> final(w).s.fresh, //[C11]
        // a zero duration never sleeps (poll): exactly one non-blocking status check
        dur.ns == 0 && !is_finished(*old(self)) ==> final(w).s.n_sleep == old(w).s.n_sleep && final(w).s.n_waitpid == old(w).s.n_waitpid + 1, //[C11]
        // no busy wait: between two status checks there is always a sleep
        final(w).s.n_waitpid - old(w).s.n_waitpid <= (final(w).s.n_sleep - old(w).s.n_sleep) + 1, //[C11]
//@replace 1 /use std::cmp::min;/ => //
//@rreplace + /::std::thread::sleep\(/ => /thread_sleep(/
//@rreplace 1 /(let deadline = Instant::now\(Tracked\(&\*w\)\) \+ dur;)/ => /\1 proof { begin_wait(w, deadline.t as nat); }/
//@loop 0
        invariant popen_wf(*self, w.s), frame(*old(self), *self), !is_finished(*old(self)), clock_ok(w.s),
            w.s.kills == old(w).s.kills, w.s.n_blocking == old(w).s.n_blocking,
            w.s.wait_deadline == Some(deadline.t as nat), deadline.t >= old(w).s.now + dur.ns, w.s.now >= old(w).s.now,
            1_000_000 <= delay.ns <= 100_000_000,
            w.s.n_waitpid - old(w).s.n_waitpid == w.s.n_sleep - old(w).s.n_sleep,
            dur.ns == 0 ==> w.s.n_sleep == old(w).s.n_sleep && w.s.now >= deadline.t,
            !is_finished(*self),
        decreases (if w.s.now < deadline.t { deadline.t - w.s.now } else { 0 }),
//@end

//@fn os[unix]::impl(super::PopenOs+for+Popen)::os_terminate world=mut
    requires popen_wf(*old(self), old(w).s),
    ensures signal_post(*old(self), *final(self), old(w).s, final(w).s, posix::SIGTERM), //[C10]
//@end
//@fn os[unix]::impl(super::PopenOs+for+Popen)::os_kill world=mut
    requires popen_wf(*old(self), old(w).s),
    ensures signal_post(*old(self), *final(self), old(w).s, final(w).s, posix::SIGKILL), //[C10]
//@end
//@fn os[unix]::ext::impl(PopenExt+for+Popen)::send_signal world=mut
    requires popen_wf(*self, old(w).s),
    ensures signal_post(*self, *self, old(w).s, final(w).s, signal), //[C10]
//@end

//@fn Popen::wait world=mut
    requires popen_wf(*old(self), old(w).s),
    ensures
        popen_wf(*final(self), final(w).s), frame(*old(self), *final(self)),
        final_is_final(*old(self), *final(self), old(w).s, final(w).s), //[C09]
        final(w).s.kills == old(w).s.kills, final(w).s.n_sleep == old(w).s.n_sleep,
        r is Ok ==> status_of(*final(self)) == Some(r->Ok_0), //[C09,C13,C14]
        r is Err ==> !is_finished(*final(self)) && final(w).s.n_blocking > old(w).s.n_blocking,
//@end
//@fn Popen::wait_timeout world=mut
    requires popen_wf(*old(self), old(w).s), clock_ok(old(w).s), dur.ns < 0x1_0000_0000_0000_0000_0000_0000,
    ensures
        popen_wf(*final(self), final(w).s), frame(*old(self), *final(self)),
        final_is_final(*old(self), *final(self), old(w).s, final(w).s), //[C09,C11]
        final(w).s.kills == old(w).s.kills, final(w).s.n_blocking == old(w).s.n_blocking, //[C11]
        r is Ok ==> r->Ok_0 == status_of(*final(self)), //[C09]
        r is Err ==> !is_finished(*final(self)),
        r is Ok && r->Ok_0.is_none() ==> final(w).s.now >= old(w).s.now + dur.ns, //[C11]
        dur.ns == 0 && !is_finished(*old(self)) ==> final(w).s.n_sleep == old(w).s.n_sleep && final(w).s.n_waitpid == old(w).s.n_waitpid + 1, //[C11]
        final(w).s.n_waitpid - old(w).s.n_waitpid <= (final(w).s.n_sleep - old(w).s.n_sleep) + 1, //[C11]
//@end
//@fn Popen::poll world=mut
    requires popen_wf(*old(self), old(w).s), clock_ok(old(w).s),
    ensures
        popen_wf(*final(self), final(w).s), frame(*old(self), *final(self)),
        final_is_final(*old(self), *final(self), old(w).s, final(w).s), //[C09]
        // never blocks: no blocking wait, no sleep, at most one status check
        final(w).s.n_blocking == old(w).s.n_blocking && final(w).s.n_sleep == old(w).s.n_sleep && final(w).s.n_waitpid <= old(w).s.n_waitpid + 1, //[C11]
        final(w).s.kills == old(w).s.kills,
        r.is_some() ==> r == status_of(*final(self)), //[C09]
        is_finished(*final(self)) ==> r == status_of(*final(self)), //[C09]
//@end
//@fn Popen::terminate world=mut
    requires popen_wf(*old(self), old(w).s),
    ensures signal_post(*old(self), *final(self), old(w).s, final(w).s, posix::SIGTERM), //[C10]
//@end
//@fn Popen::kill world=mut
    requires popen_wf(*old(self), old(w).s),
    ensures signal_post(*old(self), *final(self), old(w).s, final(w).s, posix::SIGKILL), //[C10]
//@end

// R8: `impl Drop for Popen { fn drop }` -> inherent `drop_impl` (Verus does not run destructors)
//@fn impl(Drop+for+Popen)::drop world=mut rename=drop_impl
    requires popen_wf(*old(self), old(w).s),
    ensures
        popen_wf(*final(self), final(w).s), frame(*old(self), *final(self)), final(w).s.kills == old(w).s.kills,
        // detached: never blocks, never reaps, asks nothing
        old(self).detached ==> final(w).s == old(w).s && final(self).child_state == old(self).child_state, //[C12,C14,C13]
        // not detached: afterwards the child is known to be dead (reaped here, or found reaped by somebody else),
        // unless the wait itself failed with an error other than ECHILD
        !old(self).detached ==> is_finished(*final(self)) || final(w).s.n_blocking > old(w).s.n_blocking, //[C12,C14,C13]
        !old(self).detached && is_finished(*final(self)) ==> (final(w).s.kernel is Reaped || final(w).s.kernel is Gone), //[C12,C14,C13]
//@end
}

// what a signal-sending call does: exactly one kill(pid, sig) to the child while it is not known to be dead, nothing at all afterwards
pub open spec fn signal_post(p0: Popen, p1: Popen, w0: PS, w1: PS, sig: i32) -> bool {
    &&& p1.child_state == p0.child_state && frame(p0, p1) && popen_wf(p1, w1)
    &&& match p0.child_state {
            ChildState::Running { pid, ext } => w1.kills == w0.kills.push((w0.pid, sig)) && w1.n_waitpid == w0.n_waitpid && w1.n_sleep == w0.n_sleep,
            _ => w1 == w0,
        }
}
} // verus!
fn main() {}
