// BOUNDED native check of the Windows command-line assembly (C20).  The two functions below are extracted mechanically from the
// cfg(windows) module of src/popen.rs on every run (text verbatim); only the platform types they use are replaced by the shims in this
// file (OsStr/OsString over UTF-16 code units, win32::ERROR_BAD_PATHNAME).  main() enumerates argument vectors, assembles the command
// line with the REAL code and parses it back with an independent implementation of the Microsoft C runtime rules (2008 and later).
#![allow(dead_code, unused_imports)]
use std::io;
mod win32 { pub const ERROR_BAD_PATHNAME: u32 = 161; }
#[derive(Clone, Debug, PartialEq, Eq)]
pub struct OsString(pub Vec<u16>);
pub type OsStr = OsString;
impl OsString {
    pub fn encode_wide(&self) -> impl Iterator<Item = u16> + '_ { self.0.iter().copied() }
    pub fn is_empty(&self) -> bool { self.0.is_empty() }
    pub fn from_wide(w: &[u16]) -> OsString { OsString(w.to_vec()) }
}

//@source src/popen.rs
//@fn os[windows]::assemble_cmdline native
//@end
//@fn os[windows]::append_quoted native
//@end

// ---- independent oracle: how the Microsoft C runtime (2008+) / CommandLineToArgvW splits a command line into arguments
// (every argument by the general rule; the special rule for argv[0] is outside this oracle)
fn ms_parse(cmd: &[u16]) -> Vec<Vec<u16>> {
    const SP: u16 = b' ' as u16; const TAB: u16 = b'\t' as u16; const QUOTE: u16 = b'"' as u16; const BS: u16 = b'\\' as u16;
    let mut args = vec![];
    let n = cmd.len();
    let mut i = 0;
    loop {
        while i < n && (cmd[i] == SP || cmd[i] == TAB) { i += 1; }
        if i >= n { break; }
        let mut cur = vec![];
        let mut in_quotes = false;
        loop {
            if i >= n { break; }
            let c = cmd[i];
            if !in_quotes && (c == SP || c == TAB) { break; }
            if c == BS {
                let mut k = 0;
                while i < n && cmd[i] == BS { k += 1; i += 1; }
                if i < n && cmd[i] == QUOTE {
                    for _ in 0..k / 2 { cur.push(BS); }
                    if k % 2 == 1 { cur.push(QUOTE); i += 1; }
                    // even: the quote is a delimiter, handled on the next round
                } else {
                    for _ in 0..k { cur.push(BS); }
                }
                continue;
            }
            if c == QUOTE {
                if in_quotes && i + 1 < n && cmd[i + 1] == QUOTE { cur.push(QUOTE); i += 2; continue; } // "" inside quotes = literal quote
                in_quotes = !in_quotes;
                i += 1;
                continue;
            }
            cur.push(c);
            i += 1;
        }
        args.push(cur);
    }
    args
}

fn strings(alphabet: &[u16], max_len: usize) -> Vec<Vec<u16>> {
    let mut out = vec![vec![]];
    let mut frontier: Vec<Vec<u16>> = vec![vec![]];
    for _ in 0..max_len {
        let mut next = vec![];
        for s in &frontier { for &c in alphabet { let mut t = s.clone(); t.push(c); next.push(t); } }
        out.extend(next.iter().cloned());
        frontier = next;
    }
    out
}

fn main() {
    // letters, space, tab, newline, double quote, backslash, a non-ASCII unit
    let alphabet: [u16; 7] = [b'a' as u16, b' ' as u16, b'\t' as u16, b'\n' as u16, b'"' as u16, b'\\' as u16, 0x00e9];
    let thorough = std::env::args().nth(1).map(|a| a == "thorough").unwrap_or(false);
    let long = strings(&alphabet, if thorough { 6 } else { 4 });     // 2801 strings (thorough: 137257)
    let short = strings(&alphabet, 2);    // 57 strings
    let mut checked = 0u64;
    let mut bad = 0u64;
    let mut check = |argv: Vec<Vec<u16>>| {
        let r = assemble_cmdline(argv.iter().map(|a| OsString(a.clone())).collect());
        checked += 1;
        match r {
            Ok(line) => {
                let back = ms_parse(&line.0);
                if back != argv {
                    if bad < 5 { println!("FAIL: argv {:?} -> command line {:?} -> parsed back as {:?}", argv, String::from_utf16_lossy(&line.0), back); }
                    bad += 1;
                }
            }
            Err(e) => { if bad < 5 { println!("FAIL: argv {:?} rejected: {}", argv, e); } bad += 1; }
        }
    };
    for s in &long { check(vec![vec![b'p' as u16], s.clone()]); }
    for s in &short { for t in &long[..400.min(long.len())] { check(vec![vec![b'p' as u16], s.clone(), t.clone()]); } }
    for s in &short { for t in &short { check(vec![s.clone(), t.clone(), s.clone()]); } }
    // an argument containing NUL is rejected
    for s in &short {
        let mut a = s.clone(); a.push(0); a.extend_from_slice(s);
        checked += 1;
        if assemble_cmdline(vec![OsString(vec![b'p' as u16]), OsString(a.clone())]).is_ok() {
            if bad < 5 { println!("FAIL: argument with NUL {:?} accepted", a); }
            bad += 1;
        }
    }
    println!("{} argument vectors checked against the Microsoft parsing rules, {} mismatches", checked, bad);
    if bad > 0 { std::process::exit(1); }
    println!("ok");
}
