// BOUNDED native check of CVec (C06: "byte-for-byte the argument vector it was given ... NUL rejected").  os_to_cstring, struct CVec,
// CVec::new and as_c_vec are extracted mechanically from src/posix.rs on every run (text verbatim; plain std + raw pointers) and run
// on every vector of 0..3 strings of length 0..3 over {a, '/', NUL, 0xff}: a NUL anywhere => Err(EINVAL); otherwise the table has one
// pointer per string, each to exactly that string's bytes followed by NUL, and a terminating NULL pointer.
#![allow(dead_code, unused_imports)]
use std::ffi::{CString, OsStr, OsString};
use std::io::{Error, Result};
use std::iter;
use std::os::raw::c_char;
use std::os::unix::ffi::OsStrExt;
use std::ptr;
mod libc { pub const EINVAL: i32 = 22; }

//@source src/posix.rs
//@fn os_to_cstring native
//@end
//@struct CVec
impl CVec {
//@fn CVec::new native
//@end
//@fn CVec::as_c_vec native
//@end
}

fn strings(alphabet: &[u8], max_len: usize) -> Vec<Vec<u8>> {
    let mut out = vec![vec![]];
    let mut frontier: Vec<Vec<u8>> = vec![vec![]];
    for _ in 0..max_len {
        let mut next = vec![];
        for s in &frontier { for &c in alphabet { let mut t = s.clone(); t.push(c); next.push(t); } }
        out.extend(next.iter().cloned());
        frontier = next;
    }
    out
}
fn main() {
    let thorough = std::env::args().nth(1).map(|a| a == "thorough").unwrap_or(false);
    let ss = strings(&[b'a', b'/', 0u8, 0xff], if thorough { 4 } else { 3 });
    let (mut checked, mut bad) = (0u64, 0u64);
    let mut check = |v: Vec<&Vec<u8>>| {
        checked += 1;
        let os: Vec<&OsStr> = v.iter().map(|b| OsStr::from_bytes(b)).collect();
        let has_nul = v.iter().any(|b| b.contains(&0));
        match CVec::new(&os) {
            Err(e) => { if !has_nul || e.raw_os_error() != Some(22) { if bad < 5 { println!("FAIL: {:?} rejected with {:?}", v, e); } bad += 1; } }
            Ok(cv) => {
                let mut ok = !has_nul;
                let t = cv.as_c_vec();
                unsafe {
                    for (i, b) in v.iter().enumerate() {
                        let p = *t.add(i) as *const u8;
                        if p.is_null() { ok = false; break; }
                        for (k, &x) in b.iter().enumerate() { if *p.add(k) != x { ok = false; } }
                        if *p.add(b.len()) != 0 { ok = false; }
                    }
                    if !(*t.add(v.len())).is_null() { ok = false; }
                }
                if !ok { if bad < 5 { println!("FAIL: {:?}: wrong pointer table (or NUL accepted)", v); } bad += 1; }
            }
        }
    };
    check(vec![]);
    for a in &ss { check(vec![a]); }
    let short = strings(&[b'a', b'/', 0u8, 0xff], 2);
    for a in &short { for b in &ss { check(vec![a, b]); } }
    for a in &short { for b in &short { for c in &short { check(vec![a, b, c]); } } }
    println!("{} argument vectors checked, {} mismatches", checked, bad);
    if bad > 0 { std::process::exit(1); }
    println!("ok");
}
