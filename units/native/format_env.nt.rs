// BOUNDED native check of format_env (C06: "precisely the listed variables, with the later of duplicate names winning").
// The function is extracted mechanically from the cfg(unix) module of src/popen.rs on every run (text verbatim, it is plain std code) and
// run on every environment list of up to 5 entries over 3 names and 2 values, against the specification written below.
#![allow(dead_code, unused_imports)]
use std::collections::HashSet;
use std::ffi::{OsStr, OsString};

//@source src/popen.rs
//@fn os[unix]::format_env native
//@end

// specification: one `name=value` per distinct name, the value of its LAST binding, in the order of those last bindings
fn spec(env: &[(OsString, OsString)]) -> Vec<OsString> {
    let mut out = vec![];
    for (i, (k, v)) in env.iter().enumerate() {
        if env[i + 1..].iter().any(|(k2, _)| k2 == k) { continue; }
        let mut s = k.clone(); s.push("="); s.push(v);
        out.push(s);
    }
    out
}
fn main() {
    let names = ["A", "B", "CC"];
    let values = ["", "x"];
    let pairs: Vec<(OsString, OsString)> = names.iter().flat_map(|n| values.iter().map(move |v| (OsString::from(*n), OsString::from(*v)))).collect();
    let mut checked = 0u64; let mut bad = 0u64;
    let mut lists: Vec<Vec<(OsString, OsString)>> = vec![vec![]];
    let mut frontier = lists.clone();
    let thorough = std::env::args().nth(1).map(|a| a == "thorough").unwrap_or(false);
    for _ in 0..(if thorough { 7 } else { 5 }) {
        let mut next = vec![];
        for l in &frontier { for p in &pairs { let mut t = l.clone(); t.push(p.clone()); next.push(t); } }
        lists.extend(next.iter().cloned());
        frontier = next;
    }
    for l in &lists {
        checked += 1;
        let got = format_env(l);
        let want = spec(l);
        if got != want {
            if bad < 5 { println!("FAIL: environment {:?} is formatted as {:?}, expected {:?}", l, got, want); }
            bad += 1;
        }
    }
    println!("{} argument vectors checked (environment lists), {} mismatches", checked, bad);
    if bad > 0 { std::process::exit(1); }
    println!("ok");
}
