//@unit wincmd
//@include models/winparse.rs
//@include models/winshims.rs
//@source src/popen.rs

//@fn os[windows]::assemble_cmdline ret=res
//@rreplace 1 /for arg in argv/ => /for arg in it: argv/
//@rreplace 1 /if !is_first \{/ => /proof { assert(arg == argv@[it.index@ as int]); assert(views(argv@)[it.index@ as int] == arg.w@); } if !is_first {/
//@rreplace 1 /Ok\(OsString::from_wide\(&cmdline\)\)/ => /proof { lemma_round_trip(views(argv@)); } Ok(OsString::from_wide(&cmdline))/
//@closure 0 |c: u16| -> (b: bool)
            ensures b == (c == 0)
//@contract
    requires forall|i: int| 0 <= i < argv@.len() ==> (#[trigger] argv@[i]).w@.len() <= MAX_ARG,
    ensures
        // C20: an argument containing NUL is rejected, and nothing else is
        res is Err <==> exists|i: int| 0 <= i < argv@.len() && has_nul(#[trigger] views(argv@)[i]), //[C20]
        // C20: the command line parses back, under the Microsoft rules, to exactly the argument vector
        res is Ok ==> parse_all(res->Ok_0.w@, 0, Seq::<Seq<u16>>::empty()) == views(argv@), //[C20]
        res is Ok ==> res->Ok_0.w@ == join_to(views(argv@), argv@.len() as int), //[C20]
//@loop 0
            invariant
                it.seq() == argv@,
                is_first == (it.index@ == 0),
                cmdline@ == join_to(views(argv@), it.index@ as int),
                forall|i: int| 0 <= i < it.index@ ==> !has_nul(#[trigger] views(argv@)[i]),
                forall|i: int| 0 <= i < argv@.len() ==> (#[trigger] argv@[i]).w@.len() <= MAX_ARG,
//@end

//@fn os[windows]::append_quoted
//@rreplace 1 /cmdline\.extend\(arg\.encode_wide\(\)\);/ => /extend_wide(cmdline, arg.encode_wide());/
//@rreplace 1 /let arg: Vec<_> = arg\.encode_wide\(\)\.collect\(\);/ => /let ghost a = arg.w@; let ghost total = cmdline@ + body(a, 0); let arg: Vec<_> = arg.encode_wide().collect();/
//@rreplace 1 /let mut num_backslashes = 0;/ => /let ghost i0 = i as int; let ghost c1 = cmdline@; let mut num_backslashes = 0;/
//@rreplace 1 /if i == arg\.len\(\) \{/ => /let ghost nb = i - i0; proof { lemma_bs_run_exact(a, i0, nb as nat); } if i == arg.len() {/
//@rreplace + /for _ in 0\.\./ => /for _ in it: 0../
//@closure 0 |c: u16| -> (b: bool)
                ensures b == special(c)
//@contract
    requires arg.w@.len() <= MAX_ARG,
    ensures final(cmdline)@ =~= old(cmdline)@ + quoted(arg.w@), //[C20]
//@loop 0
            invariant_except_break
                arg@ == a, a.len() <= MAX_ARG, i <= arg.len(),
                total =~= cmdline@ + body(a, i as int),
            ensures total =~= cmdline@,
            decreases arg.len() - i,
//@loop 1
                invariant
                    arg@ == a, a.len() <= MAX_ARG, 0 <= i0 <= i <= arg.len(), num_backslashes == i - i0,
                    forall|x: int| i0 <= x < i ==> a[x] == BS,
                decreases arg.len() - i,
//@loop 2
                    invariant cmdline@ =~= c1 + rep(BS, it.index@ as nat), it.iter.end == 2 * nb,
//@loop 3
                    invariant cmdline@ =~= c1 + rep(BS, it.index@ as nat), it.iter.end == 2 * nb + 1,
//@loop 4
                    invariant cmdline@ =~= c1 + rep(BS, it.index@ as nat), it.iter.end == nb,
//@end
} // verus!
fn main() {}
