//@unit splitpath
//@include models/splitw.rs
//@source src/posix.rs
// R9': split_path returns `std::iter::from_fn(closure)`; the closure's body -- the tokenizer -- is verified as the function it is:
// the captured `mut path` becomes the parameter `path: &mut &OsStr` (assignments `path = e` become `*path = e`), everything else is verbatim.
//@fn split_path rename=split_next
//@attr #[verifier::loop_isolation(false)]
//@sreplace 1 /\(mut path: &OsStr\) -> \(r: impl Iterator<Item = &OsStr>\)/ => /<'a>(path: &mut &'a OsStr) -> (r: Option<&'a OsStr>)/
//@rreplace 1 /std::iter::from_fn\(move \|\| \{/ => /{ proof { lemma_first_colon(path.b@); }/
//@rreplace 1 /\}\)\s*\}\s*$/ => /} }/
//@rreplace 1 /path\.as_bytes\(\)\.iter\(\)\.position\(\|&c\| c == b':'\)/ => /find_colon(path.as_bytes())/
//@rreplace 2 /(\s)path = OsStr::/ => /\1*path = OsStr::/
//@rreplace 1 /OsStr::new\(""\)/ => /OsStr::empty()/
//@rreplace 1 /let piece = path;/ => /let piece = *path;/
    ensures match r {
        // one call yields the next non-empty PATH entry and leaves the rest; None exactly when no entry is left
        Some(p) => p.b@.len() > 0 && segments(old(path).b@) =~= seq![p.b@] + segments(final(path).b@), //[C15]
        None => segments(old(path).b@).len() == 0 && final(path).b@.len() == 0, //[C15]
    }
//@loop 0
        invariant segments(path.b@) == segments(old(path).b@),
        decreases path.b@.len(),
//@end
} // verus!
fn main() {}
