//@unit exec
//@include models/execw.rs
//@thread .libc_exec .exec

//@source src/posix.rs
// the PrepExec record, with its buffer represented by Buf (R6)
//@struct PrepExec pubfields subst=Vec<u8>=>Buf
//@include models/execw_prep.rs
// C15: the program paths to try, in order: "<dir>/<cmd>\0" for every non-empty PATH entry, or "<cmd>\0" when there is no search
pub open spec fn candidate(dir: Seq<u8>, cmd: Seq<u8>) -> Seq<u8> { dir + seq![0x2fu8] + cmd + seq![0u8] }
pub open spec fn candidates(segs: Seq<Seq<u8>>, cmd: Seq<u8>) -> Seq<Seq<u8>> { Seq::new(segs.len(), |i: int| candidate(segs[i], cmd)) }
pub open spec fn needed(cmd: Seq<u8>, search: Option<OsString>) -> nat {
    (cmd.len() + 1 + (match search { Some(p) => 1 + max_len(segments(p.b@)), None => 0 })) as nat
}

impl PrepExec {
//@fn PrepExec::new
//@rreplace 1 /split_path\(search_path\)\.map\(OsStr::len\)\.max\(\)\.unwrap_or\(0\)/ => /max_segment_len(search_path)/
//@rreplace 1 /Vec::with_capacity\(max_exe_len\)/ => /Buf::with_capacity(max_exe_len)/
    requires cmd.b@.len() + 2 + (match search_path { Some(p) => max_len(segments(p.b@)), None => 0 }) <= usize::MAX,
    ensures r.cmd == cmd, r.search_path == search_path, r.argvec == argvec, r.envvec == envvec, r.prealloc_exe.v@.len() == 0,
        // C17: room for the longest candidate is reserved BEFORE the fork
        r.prealloc_exe.cap@ >= needed(cmd.b@, search_path), //[C17]
//@end

//@fn PrepExec::assemble_exe
//@sreplace 1 /storage: &'a mut Vec<u8>/ => /storage: &'a mut Buf/
//@rreplace 1 /for comp in components/ => /for comp in it: components/
    requires components@.len() <= 3, len_prefix(components@, components@.len() as int) + 1 <= old(storage).cap@, //[C17]
    ensures r@ == concat_prefix(components@, components@.len() as int) + seq![0u8], final(storage).cap == old(storage).cap, //[C15]
//@loop 0
        invariant storage.cap == old(storage).cap, components@.len() <= 3, it.index@ <= components@.len(),
            storage.v@ == concat_prefix(components@, it.index@ as int), storage.v@.len() == len_prefix(components@, it.index@ as int),
            len_prefix(components@, components@.len() as int) + 1 <= storage.cap@,
//@end

//@fn PrepExec::exec world=mut
//@selfmut
//@attr #[verifier::loop_isolation(false)]
//@rreplace 1 /std::mem::take\(&mut this\.prealloc_exe\)/ => /take_buf(&mut this.prealloc_exe)/
//@rreplace 1 /for dir in split_path\(search_path\.as_os_str\(\)\)/ => /let mut it_ = split_path(search_path.as_os_str()); loop/
//@rreplace 1 /(let )?err = this\.libc_exec\(/ => /let dir = match it_.next() { Some(d_) => d_, None => break }; \1err = this.libc_exec(/
//@rreplace 1 /b"\/"/ => /slash()/
    requires self.prealloc_exe.v@.len() == 0, self.prealloc_exe.cap@ >= needed(self.cmd.b@, self.search_path),
    ensures
        // nothing could be executed: that is an error on every path, never "Ok"
        r is Err, //[C15,C07]
        // the candidates were tried in PATH order, each exactly once, and nothing else was tried
        final(w).s.attempts =~= old(w).s.attempts + (match self.search_path {
            Some(p) => candidates(segments(p.b@), self.cmd.b@),
            None => seq![self.cmd.b@ + seq![0u8]],
        }), //[C15]
        // the error reported is the operating-system error of the step that failed: the last exec attempt (ENOENT if there was none)
        r->Err_0.code == (if final(w).s.attempts.len() > old(w).s.attempts.len() { final(w).s.last_err } else { Some(libc::ENOENT) }), //[C07,C15]
//@loop 0
        invariant
            self.search_path.is_some(), it_.all@ == segments(self.search_path.unwrap().b@), err is Err, it_.pos@ <= it_.all@.len(),
            err->Err_0.code == (if it_.pos@ > 0 { w.s.last_err } else { Some(libc::ENOENT) }),
            exe.cap@ >= needed(self.cmd.b@, self.search_path), this.cmd == self.cmd,
            w.s.attempts =~= old(w).s.attempts + Seq::new(it_.pos@, |i: int| candidate(it_.all@[i], self.cmd.b@)),
        decreases it_.all@.len() - it_.pos@,
//@end
}
// the concatenation of the first k components (k <= 3: the two call sites pass one or three components; stated without recursion so
// that no inductive lemma is needed)
pub open spec fn concat_prefix(c: Seq<&[u8]>, k: int) -> Seq<u8> {
    if k <= 0 { Seq::<u8>::empty() } else if k == 1 { c[0]@ } else if k == 2 { c[0]@ + c[1]@ } else { c[0]@ + c[1]@ + c[2]@ }
}
pub open spec fn len_prefix(c: Seq<&[u8]>, k: int) -> int {
    if k <= 0 { 0int } else if k == 1 { c[0]@.len() as int } else if k == 2 { (c[0]@.len() + c[1]@.len()) as int } else { (c[0]@.len() + c[1]@.len() + c[2]@.len()) as int }
}
//@unthread .exec
//@fn prep_exec
//@sreplace 1 /pub fn prep_exec\(/ => /pub fn prep_exec<C: AsRef<OsStr>, A: AsRef<OsStr>, E: AsRef<OsStr>>(/
//@sreplace 1 /cmd: impl AsRef<OsStr>/ => /cmd: C/
//@sreplace 1 /args: &\[impl AsRef<OsStr>\]/ => /args: &[A]/
//@sreplace 1 /env: Option<&\[impl AsRef<OsStr>\]>/ => /env: Option<&[E]>/
//@sreplace 1 /Result<impl FnOnce\(\) -> Result<\(\)>>/ => /Result<PrepExec>/
//@rreplace 1 /!cmd\.as_bytes\(\)\.iter\(\)\.any\(\|&b\| b == b'\/'\)/ => /!has_slash(&cmd)/
//@rreplace 1 /env::var_os\("PATH"\)[^;]*\.and_then\(\|p\| if p\.len\(\) == 0 \{ None \} else \{ Some\(p\) \}\)/ => /nonempty_path_var()/
//@rreplace 1 /Ok\(move \|\| prep\.exec\(\)\)/ => /Ok(prep)/
    // R9: the returned closure `move || prep.exec()` is represented by the PrepExec it captures
    requires cmd.bytes().len() + 2 + (match env_path() { Some(p) => max_len(segments(p)), None => 0 }) <= usize::MAX,
    ensures
        // arguments, names or values containing NUL are rejected before anything is started //[C06]
        (exists|i: int| 0 <= i < args@.len() && has_nul((#[trigger] args@[i]).bytes())) ==> r is Err, //[C06]
        r is Ok ==> ({
            let p = r->Ok_0;
            &&& p.cmd.b@ == cmd.bytes() && p.prealloc_exe.v@.len() == 0 && p.prealloc_exe.cap@ >= needed(p.cmd.b@, p.search_path) //[C17]
            // a name containing a slash is used as given with no search; otherwise PATH is searched if it is set and non-empty //[C15]
            &&& (contains_slash(cmd.bytes()) ==> p.search_path.is_none()) //[C15]
            &&& (!contains_slash(cmd.bytes()) ==> match env_path() { Some(pv) => if pv.len() == 0 { p.search_path.is_none() } else { p.search_path.is_some() && p.search_path.unwrap().b@ == pv }, None => p.search_path.is_none() }) //[C15]
            &&& p.argvec.strings@.len() == args@.len() && p.envvec.is_some() == env.is_some() //[C06]
        }),
//@end
} // verus!
fn main() {}
