//@unit comm
//@include models/exchange.rs
//@thread maybe_poll do_read posix::poll libc_poll .read .write .read_into .communicate_bytes .read_string Instant::now:ro

// ================================================================ the real posix::poll wrapper (its >24.8-day loop), over libc_poll
pub mod posix_impl {
use vstd::prelude::*;
use super::*;
use super::posix::*;
use super::io::Result;
broadcast use {super::posix::poll_lemmas};
//@source src/posix.rs
//@fn poll world=mut
//@attr #[verifier::loop_isolation(false)]
        requires
            forall|i: int| 0 <= i < old(fds)@.len() && old(fds)@[i].fd.is_some() ==> 0 <= #[trigger] old(fds)@[i].fd.unwrap().slot@ < 3,
            covers_live(old(w).s, old(fds)@), //[C01]
            match timeout { None => old(w).s.deadline.is_none(), Some(d) => old(w).s.deadline.is_some() && (d.ns == 0 || old(w).s.now + d.ns <= old(w).s.deadline.unwrap()) }, //[C04]
            clock_ok(old(w).s), timeout.is_some() ==> timeout.unwrap().ns < T_MAX,
        ensures
            final(fds)@.len() == old(fds)@.len(),
            forall|i: int| #![trigger final(fds)@[i]] #![trigger old(fds)@[i]] 0 <= i < old(fds)@.len() ==> final(fds)@[i].fd == old(fds)@[i].fd && final(fds)@[i].events == old(fds)@[i].events,
            final(w).s.now >= old(w).s.now, clock_ok(final(w).s),
            final(w).s.deadline == old(w).s.deadline,
            final(w).s.sin == old(w).s.sin, final(w).s.sout == old(w).s.sout, final(w).s.serr == old(w).s.serr,
            final(w).s.ready_at >= old(w).s.now,
            old(w).s.deadline.is_some() && old(w).s.now < old(w).s.deadline.unwrap() ==> final(w).s.ready_at < old(w).s.deadline.unwrap(), //[C04]
            r is Ok ==> forall|i: int| 0 <= i < old(fds)@.len() && old(fds)@[i].fd.is_none() ==> (#[trigger] final(fds)@[i]).revents == 0,
            r is Ok ==> forall|i: int| 0 <= i < old(fds)@.len() && old(fds)@[i].fd.is_some() ==> allowed_revents(old(fds)@[i].fd.unwrap().slot@, (#[trigger] final(fds)@[i]).revents),
            r is Ok ==> final(w).s.r0 == slot_ready(final(fds)@, 0) && final(w).s.r1 == slot_ready(final(fds)@, 1) && final(w).s.r2 == slot_ready(final(fds)@, 2),
            r is Ok ==> (r->Ok_0 == 0 <==> forall|i: int| 0 <= i < old(fds)@.len() ==> (#[trigger] final(fds)@[i]).revents == 0),
            // a time-out is reported only after the requested time has passed (to the millisecond), also beyond i32::MAX ms
            r is Ok && r->Ok_0 == 0 ==> timeout.is_some() && final(w).s.now + 1_000_000 > old(w).s.now + timeout.unwrap().ns, //[C04]
            r is Err ==> r->Err_0.kind != io::ErrorKind::TimedOut && !final(w).s.r0 && !final(w).s.r1 && !final(w).s.r2,
//@replace 1 /let fds_ptr = fds.as_ptr() as *mut libc::pollfd; let cnt = unsafe { check_err(libc::poll(fds_ptr, fds.len() as libc::nfds_t, timeout_ms))? };/ => /let cnt = libc_poll(fds, timeout_ms, Tracked(w))?;/
//@entry
        let ghost timeout0 = timeout;
//@closure 0 |timeout: Duration| -> (d: Instant)
            requires w.s.now + timeout.ns <= u128::MAX
            ensures d.t == w.s.now + timeout.ns
//@closure 1 |timeout: Duration| -> (p: (i32, bool))
            ensures p.1 == (timeout.ns / 1_000_000 > i32::MAX as u128), !p.1 ==> p.0 >= 0 && ms_ns(p.0) == floor_ms_ns(timeout), p.1 ==> p.0 == i32::MAX
//@loop 0
        invariant
            fds@.len() == old(fds)@.len(),
            forall|i: int| #![trigger fds@[i]] #![trigger old(fds)@[i]] 0 <= i < old(fds)@.len() ==> fds@[i].fd == old(fds)@[i].fd && fds@[i].events == old(fds)@[i].events,
            w.s.now >= old(w).s.now, clock_ok(w.s),
            w.s.deadline == old(w).s.deadline,
            w.s.sin == old(w).s.sin, w.s.sout == old(w).s.sout, w.s.serr == old(w).s.serr,
            timeout.is_some() == deadline.is_some(), timeout0.is_some() == deadline.is_some(),
            covers_live(w.s, fds@),
            // the local deadline is the entry clock plus the requested time; what is still to wait never ends before it ...
            deadline.is_some() ==> deadline.unwrap().t == old(w).s.now + timeout0.unwrap().ns,
            timeout.is_some() ==> w.s.now + timeout.unwrap().ns >= old(w).s.now + timeout0.unwrap().ns,
            // ... and never after the deadline of the exchange
            timeout.is_some() ==> w.s.deadline.is_some() && (timeout.unwrap().ns == 0 || w.s.now + timeout.unwrap().ns <= w.s.deadline.unwrap()),
            timeout.is_some() ==> timeout.unwrap().ns < T_MAX,
            w.s.now > old(w).s.now ==> (w.s.deadline.is_some() && w.s.now < w.s.deadline.unwrap()),
        decreases (if deadline.is_some() && deadline.unwrap().t > w.s.now { deadline.unwrap().t - w.s.now } else { 0 })
//@end
}
//@source src/communicate.rs

pub mod raw {
use vstd::prelude::*;
use super::*;
use super::posix_impl as posix_w;
broadcast use {super::posix::poll_lemmas, super::axiom_vec_len_fits, super::bytes_lemmas};

// ---------------------------------------------------------------- spec helpers
pub open spec fn slot_is(f: Option<&File>, k: int) -> bool { f.is_some() ==> f.unwrap().slot@ == k }
pub open spec fn rd_ok(s: RStream) -> bool { s.pos <= s.data.len() && (s.eof_seen ==> s.pos == s.data.len()) }
pub open spec fn dl(deadline: Option<Instant>) -> Option<nat> { match deadline { Some(d) => Some(d.t as nat), None => None } }

//@fn raw[unix]::as_pollfd
        ensures r.fd == f, r.revents == 0, r.events == (if for_read { posix::POLLIN } else { posix::POLLOUT })
//@end

//@fn raw[unix]::maybe_poll world=mut
        requires
            slot_is(fin, 0), slot_is(fout, 1), slot_is(ferr, 2),
            fin.is_some() || fout.is_some() || ferr.is_some(),
            live(old(w).s, 0) ==> fin.is_some(), live(old(w).s, 1) ==> fout.is_some(), live(old(w).s, 2) ==> ferr.is_some(),
            old(w).s.deadline == dl(deadline),
            deadline.is_some() ==> old(w).s.now < deadline.unwrap().t, //[C04]
            clock_ok(old(w).s), deadline.is_some() ==> deadline.unwrap().t < T_MAX,
        ensures
            final(w).s.now >= old(w).s.now, final(w).s.deadline == old(w).s.deadline, clock_ok(final(w).s),
            final(w).s.sin == old(w).s.sin, final(w).s.sout == old(w).s.sout, final(w).s.serr == old(w).s.serr,
            r.is_ok() && r->Ok_0.0 ==> fin.is_some() && may_io(final(w).s, 0),
            r.is_ok() && r->Ok_0.1 ==> fout.is_some() && may_io(final(w).s, 1),
            r.is_ok() && r->Ok_0.2 ==> ferr.is_some() && may_io(final(w).s, 2),
            // "nothing ready" is reported only when the time limit has really run out
            r.is_ok() && !r->Ok_0.0 && !r->Ok_0.1 && !r->Ok_0.2 ==> deadline.is_some() && final(w).s.now + 1_000_000 > deadline.unwrap().t, //[C04]
            r.is_err() ==> r->Err_0.kind != io::ErrorKind::TimedOut, //[C04]
//@closure 0 |deadline: Instant| -> (d: Duration)
            ensures d.ns == (if w.s.now >= deadline.t { 0 } else { deadline.t - w.s.now }) as u128
//@end

//@struct raw[unix]::RawCommunicator pubfields

    // representation invariant of the communicator w.r.t. the OS state
    pub open spec fn comm_wf(c: RawCommunicator, w: WorldState) -> bool {
        &&& (c.stdin.is_some() ==> c.stdin.unwrap().slot@ == 0)
        &&& (c.stdout.is_some() ==> c.stdout.unwrap().slot@ == 1)
        &&& (c.stderr.is_some() ==> c.stderr.unwrap().slot@ == 2)
        &&& rd_ok(w.sout) && rd_ok(w.serr) && clock_ok(w)
        &&& (c.stdin.is_some() ==> {
                &&& w.sin.intended == c.input_data@
                &&& c.input_pos <= c.input_data@.len()
                &&& w.sin.accepted == delivered(c.input_data@, c.input_pos as int)
                // C02: end-of-file follows the last byte immediately: stdin is never left open once the whole (non-empty) input was delivered
                &&& (c.input_pos < c.input_data@.len() || c.input_pos == 0)
            })
        &&& (live(w, 0) ==> c.stdin.is_some()) && (live(w, 1) ==> c.stdout.is_some()) && (live(w, 2) ==> c.stderr.is_some())
    }
    pub open spec fn m_r(f: Option<&File>, s: RStream) -> nat { if f.is_some() { 1 + remaining(s) } else { 0 } }
    pub open spec fn m_in(c: RawCommunicator) -> nat { if c.stdin.is_some() { (1 + c.input_data@.len() - c.input_pos) as nat } else { 0 } }

    impl RawCommunicator {
//@fn raw[unix]::RawCommunicator::do_read world=mut
            requires
                old(source_ref).is_some(),
                old(source_ref).unwrap().slot@ == 1 || old(source_ref).unwrap().slot@ == 2,
                rd_ok(rs(old(w).s, old(source_ref).unwrap().slot@)),
                may_io(old(w).s, old(source_ref).unwrap().slot@),
            ensures
                ({
                    let k = old(source_ref).unwrap().slot@;
                    let s0 = rs(old(w).s, k);
                    let s1 = rs(final(w).s, k);
                    &&& same_cfg(old(w).s, final(w).s) && (clock_ok(old(w).s) ==> clock_ok(final(w).s))
                    &&& (k != 0 ==> final(w).s.r0 == old(w).s.r0) && (k != 1 ==> final(w).s.r1 == old(w).s.r1) && (k != 2 ==> final(w).s.r2 == old(w).s.r2)
                    &&& final(w).s.sin == old(w).s.sin
                    &&& (k == 1 ==> final(w).s.serr == old(w).s.serr) && (k == 2 ==> final(w).s.sout == old(w).s.sout)
                    &&& s1.data == s0.data && s1.pos >= s0.pos && rd_ok(s1) && (s0.eof_seen ==> s1.eof_seen)
                    &&& match r {
                        Ok(()) => {
                            &&& final(dest)@ == old(dest)@ + consumed(s0, s1)
                            &&& s1.pos - s0.pos <= 4096
                            &&& (final(source_ref).is_some() ==> *final(source_ref) == *old(source_ref))
                            &&& (final(source_ref).is_none() ==> s1.eof_seen)
                            &&& match size_limit {
                                Some(l) => if total_read >= l { s1 == s0 && *final(source_ref) == *old(source_ref) }
                                           else { s1.pos - s0.pos <= l - total_read && (s1.pos > s0.pos || final(source_ref).is_none()) },
                                None => s1.pos > s0.pos || final(source_ref).is_none(),
                            }
                        },
                        Err(e) => final(dest)@ == old(dest)@ && s1 == s0 && e.kind != io::ErrorKind::TimedOut,
                    }
                }),
//@end

//@fn raw[unix]::RawCommunicator::read_into world=mut
//@attr #[verifier::loop_isolation(false)]
            requires
                comm_wf(*old(self), old(w).s),
                old(w).s.deadline == dl(deadline), deadline.is_some() ==> deadline.unwrap().t < T_MAX,
                old(outvec)@.len() + old(errvec)@.len() + remaining(old(w).s.sout) + remaining(old(w).s.serr) <= usize::MAX,
            ensures
                comm_wf(*final(self), final(w).s),
                final(w).s.deadline == old(w).s.deadline, final(w).s.now >= old(w).s.now,
                final(w).s.sout.pos >= old(w).s.sout.pos, final(w).s.serr.pos >= old(w).s.serr.pos,
                final(self).stdout == old(self).stdout, final(self).stderr == old(self).stderr,
                final(w).s.sout.data == old(w).s.sout.data, final(w).s.serr.data == old(w).s.serr.data,
                final(w).s.sin.intended == old(w).s.sin.intended,
                // every byte taken from a pipe is appended, once, in order, to the vector of that stream
                final(outvec)@ == old(outvec)@ + consumed(old(w).s.sout, final(w).s.sout), //[C02,C03]
                final(errvec)@ == old(errvec)@ + consumed(old(w).s.serr, final(w).s.serr), //[C02,C03]
                old(self).stdout.is_none() ==> final(w).s.sout == old(w).s.sout, //[C02]
                old(self).stderr.is_none() ==> final(w).s.serr == old(w).s.serr, //[C02]
                // the limit bounds what this call adds
                size_limit.is_some() ==> final(outvec)@.len() + final(errvec)@.len() <= (if old(outvec)@.len() + old(errvec)@.len() >= size_limit.unwrap() { old(outvec)@.len() + old(errvec)@.len() } else { size_limit.unwrap() as nat }), //[C03]
                // a successful return below the limit means every stream is finished and stdin is closed
                r.is_ok() && (size_limit.is_none() || final(outvec)@.len() + final(errvec)@.len() < size_limit.unwrap()) ==>
                    final(self).stdin.is_none() && !live(final(w).s, 0) && !live(final(w).s, 1) && !live(final(w).s, 2), //[C01,C02,C03]
                // stdin is closed exactly when the whole input has been accepted
                final(self).stdin.is_none() && old(self).stdin.is_some() ==> final(w).s.sin.accepted == final(w).s.sin.intended, //[C02]
                // timeouts are truthful
                r.is_err() && r->Err_0.kind == io::ErrorKind::TimedOut ==> deadline.is_some() && final(w).s.now + 1_000_000 > deadline.unwrap().t, //[C04]
//@loop 0
                invariant
                    comm_wf(*self, w.s),
                    w.s.deadline == dl(deadline),
                    self.stdout == old(self).stdout, self.stderr == old(self).stderr,
                    old(self).stdin.is_none() ==> self.stdin.is_none(),
                    w.s.sout.data == old(w).s.sout.data, w.s.serr.data == old(w).s.serr.data, w.s.sin.intended == old(w).s.sin.intended,
                    w.s.sout.pos >= old(w).s.sout.pos, w.s.serr.pos >= old(w).s.serr.pos, w.s.now >= old(w).s.now,
                    stdout_ref.is_some() ==> self.stdout.is_some() && stdout_ref.unwrap().slot@ == 1,
                    stderr_ref.is_some() ==> self.stderr.is_some() && stderr_ref.unwrap().slot@ == 2,
                    stdout_ref.is_none() ==> !live(w.s, 1),
                    stderr_ref.is_none() ==> !live(w.s, 2),
                    self.stdin.is_none() ==> !live(w.s, 0),
                    self.stdin.is_none() && old(self).stdin.is_some() ==> w.s.sin.accepted == w.s.sin.intended,
                    outvec@ == old(outvec)@ + consumed(old(w).s.sout, w.s.sout),
                    errvec@ == old(errvec)@ + consumed(old(w).s.serr, w.s.serr),
                    self.stdout.is_none() ==> w.s.sout == old(w).s.sout,
                    self.stderr.is_none() ==> w.s.serr == old(w).s.serr,
                    outvec@.len() + errvec@.len() + remaining(w.s.sout) + remaining(w.s.serr) <= usize::MAX,
                    size_limit.is_some() ==> outvec@.len() + errvec@.len() <= (if old(outvec)@.len() + old(errvec)@.len() >= size_limit.unwrap() { old(outvec)@.len() + old(errvec)@.len() } else { size_limit.unwrap() as nat }),
                decreases
                    m_in(*self) + m_r(stdout_ref, w.s.sout) + m_r(stderr_ref, w.s.serr), //[C01]
//@end

//@fn raw[unix]::RawCommunicator::new vis=pub
            ensures r.stdin == stdin, r.stdout == stdout, r.stderr == stderr, r.input_pos == 0,
                r.input_data@ == (match input_data { Some(v) => v@, None => Seq::<u8>::empty() }),
//@end

//@fn raw[unix]::RawCommunicator::read world=mut
            requires
                comm_wf(*old(self), old(w).s),
                old(w).s.deadline == dl(deadline), deadline.is_some() ==> deadline.unwrap().t < T_MAX,
                remaining(old(w).s.sout) + remaining(old(w).s.serr) <= usize::MAX,
            ensures
                read_post(*old(self), *final(self), old(w).s, final(w).s, size_limit, r.0.is_none(), r.1),
                final(w).s.deadline == old(w).s.deadline, final(w).s.now >= old(w).s.now,
                r.0.is_some() && r.0.unwrap().kind == io::ErrorKind::TimedOut ==> deadline.is_some() && final(w).s.now + 1_000_000 > deadline.unwrap().t, //[C04]
//@closure 0 |_f: &File| -> (v: Vec<u8>)
                ensures v == outvec
//@closure 1 |_f: &File| -> (v: Vec<u8>)
                ensures v == errvec
//@end
    }

    // what one read() call promises about the captured data, whether it ended in Ok or in an error (C02, C03, C04 "carries everything captured")
    pub open spec fn read_post(c0: RawCommunicator, c1: RawCommunicator, w0: WorldState, w1: WorldState, size_limit: Option<usize>, ok: bool,
                               cap: (Option<Vec<u8>>, Option<Vec<u8>>)) -> bool {
        &&& comm_wf(c1, w1)     // resumable: the next read() starts from a consistent state, on every exit
        &&& c1.stdout == c0.stdout && c1.stderr == c0.stderr
        &&& w1.sout.data == w0.sout.data && w1.serr.data == w0.serr.data && w1.sin.intended == w0.sin.intended
        // a stream is reported iff it was piped; what is reported is exactly what was consumed from that pipe by this call
        &&& cap.0.is_some() == c0.stdout.is_some() && cap.1.is_some() == c0.stderr.is_some()
        &&& (cap.0.is_some() ==> cap.0.unwrap()@ == consumed(w0.sout, w1.sout))
        &&& (cap.1.is_some() ==> cap.1.unwrap()@ == consumed(w0.serr, w1.serr))
        &&& (c0.stdout.is_none() ==> w1.sout == w0.sout) && (c0.stderr.is_none() ==> w1.serr == w0.serr)
        &&& w1.sout.pos >= w0.sout.pos && w1.serr.pos >= w0.serr.pos
        // size limit
        &&& (size_limit.is_some() ==> (w1.sout.pos - w0.sout.pos) + (w1.serr.pos - w0.serr.pos) <= size_limit.unwrap())
        // success below the limit: everything is finished, stdin closed after the whole input
        &&& (ok && (size_limit.is_none() || (w1.sout.pos - w0.sout.pos) + (w1.serr.pos - w0.serr.pos) < size_limit.unwrap())
                ==> c1.stdin.is_none() && !live(w1, 0) && !live(w1, 1) && !live(w1, 2))
        &&& (c1.stdin.is_none() && c0.stdin.is_some() ==> w1.sin.accepted == w1.sin.intended)
    }
}

// ================================================================ public layer of communicate.rs
pub mod comm_api {
use vstd::prelude::*;
use super::*;
use super::raw::*;
broadcast use {super::posix::poll_lemmas, super::axiom_vec_len_fits, super::bytes_lemmas};

//@struct Communicator pubfields
//@struct CommunicateError pubfields
//@include models/stringw.rs

impl Communicator {
//@fn Communicator::new
        ensures r.inner.stdin == stdin, r.inner.stdout == stdout, r.inner.stderr == stderr, r.inner.input_pos == 0,
            r.inner.input_data@ == (match input_data { Some(v) => v@, None => Seq::<u8>::empty() }),
            r.size_limit.is_none(), r.time_limit.is_none(),
//@end

//@fn Communicator::read world=mut
        requires
            comm_wf(old(self).inner, old(w).s),
            remaining(old(w).s.sout) + remaining(old(w).s.serr) <= usize::MAX,
            old(self).time_limit.is_some() ==> old(self).time_limit.unwrap().ns < 0x1_0000_0000_0000_0000_0000_0000,
        ensures
            final(self).size_limit == old(self).size_limit, final(self).time_limit == old(self).time_limit,
            // the deadline of this call is the clock at the call (or an instant shortly after) plus the time limit; none without a limit
            match old(self).time_limit { Some(t) => final(w).s.deadline.is_some() && final(w).s.deadline.unwrap() >= old(w).s.now + t.ns, None => final(w).s.deadline.is_none() }, //[C04]
            match r {
                Ok(cap) => read_post(old(self).inner, final(self).inner, old(w).s, final(w).s, old(self).size_limit, true, cap),
                // the error carries everything captured during this call
                Err(e) => read_post(old(self).inner, final(self).inner, old(w).s, final(w).s, old(self).size_limit, false, e.capture), //[C02,C03,C04]
            },
            // a timeout is reported only if a limit was set and has really elapsed (to the millisecond)
            r is Err && r->Err_0.error.kind == io::ErrorKind::TimedOut ==> old(self).time_limit.is_some() && final(w).s.now + 1_000_000 > old(w).s.now + old(self).time_limit.unwrap().ns, //[C04]
//@closure 0 |timeout: Duration| -> (d: Instant)
            requires w.s.now + timeout.ns <= u128::MAX
            ensures d.t == w.s.now + timeout.ns
//@replace 1 /match self.inner.read(/ => /proof { begin_read(w, dl(deadline)); } match self.inner.read(/
//@end

//@fn Communicator::read_string world=mut
//@rreplace 1 /Ok\(\(o\.map\(from_utf8_lossy\), e\.map\(from_utf8_lossy\)\)\)/ => /Ok((match o { Some(v_) => Some(from_utf8_lossy(v_)), None => None }, match e { Some(v_) => Some(from_utf8_lossy(v_)), None => None }))/
        // R6: Option::map(f) = match (the function item from_utf8_lossy carries its contract)
        requires
            comm_wf(old(self).inner, old(w).s),
            remaining(old(w).s.sout) + remaining(old(w).s.serr) <= usize::MAX,
            old(self).time_limit.is_some() ==> old(self).time_limit.unwrap().ns < 0x1_0000_0000_0000_0000_0000_0000,
        ensures
            comm_wf(final(self).inner, final(w).s),
            // the strings are the lossy decoding of exactly the bytes consumed from each pipe by this call; absent streams stay absent
            r is Ok ==> r->Ok_0.0.is_some() == old(self).inner.stdout.is_some() && r->Ok_0.1.is_some() == old(self).inner.stderr.is_some(), //[C02]
            r is Ok && r->Ok_0.0.is_some() ==> r->Ok_0.0.unwrap()@ == lossy(consumed(old(w).s.sout, final(w).s.sout)), //[C02]
            r is Ok && r->Ok_0.1.is_some() ==> r->Ok_0.1.unwrap()@ == lossy(consumed(old(w).s.serr, final(w).s.serr)), //[C02]
            r is Ok && old(self).size_limit.is_none() ==> final(self).inner.stdin.is_none() && !live(final(w).s, 0) && !live(final(w).s, 1) && !live(final(w).s, 2), //[C01]
            final(self).inner.stdin.is_none() && old(self).inner.stdin.is_some() ==> final(w).s.sin.accepted == final(w).s.sin.intended, //[C02]
//@end

//@fn Communicator::limit_size
//@selfmut
        ensures r.size_limit == Some(size), r.time_limit == self.time_limit, r.inner == self.inner,
//@end

//@fn Communicator::limit_time
//@selfmut
        ensures r.time_limit == Some(time), r.size_limit == self.size_limit, r.inner == self.inner,
//@end
}

//@fn from_utf8_lossy
//@rreplace + /String::from_utf8/ => /StringM::from_utf8/
    // the text variants equal the lossy UTF-8 decoding of the byte result, whichever branch is taken
    ensures r@ == lossy(v@), //[C02]
//@end

//@fn communicate
        requires
            // documented panics
            stdin.is_some() == input_data.is_some(),
        ensures r.inner.stdin == stdin, r.inner.stdout == stdout, r.inner.stderr == stderr, r.inner.input_pos == 0,
            r.inner.input_data@ == (match input_data { Some(v) => v@, None => Seq::<u8>::empty() }),
            r.size_limit.is_none(), r.time_limit.is_none(),
//@end
}

// ================================================================ the Popen entry points of popen.rs that drive the same loop
pub mod popen_api {
use vstd::prelude::*;
use super::*;
use super::raw::*;
use super::comm_api::*;
broadcast use {super::posix::poll_lemmas, super::axiom_vec_len_fits, super::bytes_lemmas};
//@source src/os_common.rs
//@enum ExitStatus derive=Clone,Copy
//@source src/popen.rs
pub mod os {
//@item os[unix]::ExtChildState
}
//@enum ChildState
//@struct Popen pubfields
pub mod communicate { pub use super::super::comm_api::communicate; }
pub use super::comm_api::Communicator;
// what the exchange looks like when it starts: the Popen's pipe ends are the three slots, nothing moved yet
pub open spec fn fresh_exchange(p: Popen, input: Seq<u8>, w: WorldState) -> bool {
    &&& (p.stdin.is_some() ==> p.stdin.unwrap().slot@ == 0) && (p.stdout.is_some() ==> p.stdout.unwrap().slot@ == 1) && (p.stderr.is_some() ==> p.stderr.unwrap().slot@ == 2)
    &&& rd_ok(w.sout) && rd_ok(w.serr) && clock_ok(w)
    &&& w.sin.intended == input && w.sin.accepted == delivered(input, 0)      // nothing delivered yet (= the empty sequence)
    &&& (live(w, 0) ==> p.stdin.is_some()) && (live(w, 1) ==> p.stdout.is_some()) && (live(w, 2) ==> p.stderr.is_some())
}
impl Popen {
//@fn Popen::communicate_start vis=pub
    requires old(self).stdin.is_some() == input_data.is_some(),     // documented panics
    ensures
        final(self).stdin.is_none() && final(self).stdout.is_none() && final(self).stderr.is_none(),
        r.inner.stdin == old(self).stdin, r.inner.stdout == old(self).stdout, r.inner.stderr == old(self).stderr, r.inner.input_pos == 0,
        r.inner.input_data@ == (match input_data { Some(v) => v@, None => Seq::<u8>::empty() }), r.size_limit.is_none(), r.time_limit.is_none(),
//@end
//@fn Popen::communicate_bytes vis=pub world=mut
//@closure 0 |i: &[u8]| -> (v: Vec<u8>)
        ensures v@ =~= i@
//@closure 1 |e: CommunicateError| -> (x: io::Error)
        ensures x == e.error
//@contract
    requires
        old(self).stdin.is_some() == input_data.is_some(),
        fresh_exchange(*old(self), match input_data { Some(i) => i@, None => Seq::<u8>::empty() }, old(w).s),
        remaining(old(w).s.sout) + remaining(old(w).s.serr) <= usize::MAX,
    ensures
        // without limits, Ok means: the whole input was delivered and stdin closed, every piped stream was read to end-of-file,
        // and each result is exactly what the child wrote to that stream; a stream that was not piped is absent
        r is Ok ==> !live(final(w).s, 0) && !live(final(w).s, 1) && !live(final(w).s, 2), //[C01,C02]
        r is Ok && old(self).stdin.is_some() ==> final(w).s.sin.accepted == final(w).s.sin.intended, //[C02]
        r is Ok ==> r->Ok_0.0.is_some() == old(self).stdout.is_some() && r->Ok_0.1.is_some() == old(self).stderr.is_some(), //[C02]
        r is Ok && r->Ok_0.0.is_some() ==> r->Ok_0.0.unwrap()@ == consumed(old(w).s.sout, final(w).s.sout), //[C02]
        r is Ok && r->Ok_0.1.is_some() ==> r->Ok_0.1.unwrap()@ == consumed(old(w).s.serr, final(w).s.serr), //[C02]
        // no time limit was set: the call never reports a timeout
        r is Err ==> r->Err_0.kind != io::ErrorKind::TimedOut, //[C04]
//@end
//@fn Popen::communicate vis=pub world=mut
//@rreplace 1 /s\.as_bytes\(\)\.to_vec\(\)/ => /str_to_vec(s)/
//@closure 0 |s: &str| -> (v: Vec<u8>)
        ensures v@ == str_bytes(s)
//@closure 1 |e: CommunicateError| -> (x: io::Error)
        ensures x == e.error
//@contract
    requires
        old(self).stdin.is_some() == input_data.is_some(),
        fresh_exchange(*old(self), match input_data { Some(i) => str_bytes(i), None => Seq::<u8>::empty() }, old(w).s),
        remaining(old(w).s.sout) + remaining(old(w).s.serr) <= usize::MAX,
    ensures
        // the text-returning variant: the child receives the UTF-8 bytes of the input, and each result is the lossy decoding of exactly
        // what the child wrote to that stream
        r is Ok ==> !live(final(w).s, 0) && !live(final(w).s, 1) && !live(final(w).s, 2), //[C01,C02]
        r is Ok && old(self).stdin.is_some() ==> final(w).s.sin.accepted == final(w).s.sin.intended, //[C02]
        r is Ok ==> r->Ok_0.0.is_some() == old(self).stdout.is_some() && r->Ok_0.1.is_some() == old(self).stderr.is_some(), //[C02]
        r is Ok && r->Ok_0.0.is_some() ==> r->Ok_0.0.unwrap()@ == lossy(consumed(old(w).s.sout, final(w).s.sout)), //[C02]
        r is Ok && r->Ok_0.1.is_some() ==> r->Ok_0.1.unwrap()@ == lossy(consumed(old(w).s.serr, final(w).s.serr)), //[C02]
//@end
}
}
} // verus!
fn main() {}
