//@unit comm
//@include models/exchange.rs
//@source src/communicate.rs
//@thread maybe_poll do_read posix::poll .read .write read_into Instant::now:ro

pub mod raw {
use vstd::prelude::*;
use super::*;
broadcast use {super::posix::poll_lemmas, super::axiom_vec_len_fits};

// ---------------------------------------------------------------- spec helpers
pub open spec fn slot_is(f: Option<&File>, k: int) -> bool { f.is_some() ==> f.unwrap().slot@ == k }
pub open spec fn rd_ok(s: RStream) -> bool { s.pos <= s.data.len() && (s.eof_seen ==> s.pos == s.data.len()) }
pub open spec fn dl(deadline: Option<Instant>) -> Option<nat> { match deadline { Some(d) => Some(d.t as nat), None => None } }
pub open spec fn consumed(s0: RStream, s1: RStream) -> Seq<u8> { s0.data.subrange(s0.pos as int, s1.pos as int) }

//@fn raw[unix]::as_pollfd
        ensures r.fd == f, r.revents == 0, r.events == (if for_read { posix::POLLIN } else { posix::POLLOUT })
//@end

//@fn raw[unix]::maybe_poll world=mut
        requires
            slot_is(fin, 0), slot_is(fout, 1), slot_is(ferr, 2),
            fin.is_some() || fout.is_some() || ferr.is_some(),
            live(old(w).s, 0) ==> fin.is_some(), live(old(w).s, 1) ==> fout.is_some(), live(old(w).s, 2) ==> ferr.is_some(),
            old(w).s.deadline == dl(deadline),
            deadline.is_some() ==> old(w).s.now < deadline.unwrap().t, //[C04]
        ensures
            final(w).s.now >= old(w).s.now, final(w).s.deadline == old(w).s.deadline,
            final(w).s.sin == old(w).s.sin, final(w).s.sout == old(w).s.sout, final(w).s.serr == old(w).s.serr,
            r.is_ok() && r->Ok_0.0 ==> fin.is_some() && may_io(final(w).s, 0),
            r.is_ok() && r->Ok_0.1 ==> fout.is_some() && may_io(final(w).s, 1),
            r.is_ok() && r->Ok_0.2 ==> ferr.is_some() && may_io(final(w).s, 2),
            // "nothing ready" is reported only when the time limit has really run out
            r.is_ok() && !r->Ok_0.0 && !r->Ok_0.1 && !r->Ok_0.2 ==> deadline.is_some() && final(w).s.now + 1_000_000 > deadline.unwrap().t, //[C04]
            r.is_err() ==> r->Err_0.kind != io::ErrorKind::TimedOut, //[C04]
//@closure 0 |deadline: Instant| -> (d: Duration)
            ensures d.ns == (if w.s.now >= deadline.t { 0 } else { deadline.t - w.s.now }) as u128
//@end

//@struct raw[unix]::RawCommunicator pubfields

    // representation invariant of the communicator w.r.t. the OS state
    pub open spec fn comm_wf(c: RawCommunicator, w: WorldState) -> bool {
        &&& (c.stdin.is_some() ==> c.stdin.unwrap().slot@ == 0)
        &&& (c.stdout.is_some() ==> c.stdout.unwrap().slot@ == 1)
        &&& (c.stderr.is_some() ==> c.stderr.unwrap().slot@ == 2)
        &&& rd_ok(w.sout) && rd_ok(w.serr)
        &&& (c.stdin.is_some() ==> {
                &&& w.sin.intended == c.input_data@
                &&& c.input_pos <= c.input_data@.len()
                &&& w.sin.accepted =~= c.input_data@.subrange(0, c.input_pos as int)
            })
        &&& (live(w, 0) ==> c.stdin.is_some()) && (live(w, 1) ==> c.stdout.is_some()) && (live(w, 2) ==> c.stderr.is_some())
    }
    pub open spec fn m_r(f: Option<&File>, s: RStream) -> nat { if f.is_some() { 1 + remaining(s) } else { 0 } }
    pub open spec fn m_in(c: RawCommunicator) -> nat { if c.stdin.is_some() { (1 + c.input_data@.len() - c.input_pos) as nat } else { 0 } }

    impl RawCommunicator {
//@fn raw[unix]::RawCommunicator::do_read world=mut
            requires
                old(source_ref).is_some(),
                old(source_ref).unwrap().slot@ == 1 || old(source_ref).unwrap().slot@ == 2,
                rd_ok(rs(old(w).s, old(source_ref).unwrap().slot@)),
                may_io(old(w).s, old(source_ref).unwrap().slot@),
            ensures
                ({
                    let k = old(source_ref).unwrap().slot@;
                    let s0 = rs(old(w).s, k);
                    let s1 = rs(final(w).s, k);
                    &&& same_cfg(old(w).s, final(w).s)
                    &&& (k != 0 ==> final(w).s.r0 == old(w).s.r0) && (k != 1 ==> final(w).s.r1 == old(w).s.r1) && (k != 2 ==> final(w).s.r2 == old(w).s.r2)
                    &&& final(w).s.sin == old(w).s.sin
                    &&& (k == 1 ==> final(w).s.serr == old(w).s.serr) && (k == 2 ==> final(w).s.sout == old(w).s.sout)
                    &&& s1.data == s0.data && s1.pos >= s0.pos && rd_ok(s1) && (s0.eof_seen ==> s1.eof_seen)
                    &&& match r {
                        Ok(()) => {
                            &&& final(dest)@ == old(dest)@ + consumed(s0, s1)
                            &&& s1.pos - s0.pos <= 4096
                            &&& (final(source_ref).is_some() ==> *final(source_ref) == *old(source_ref))
                            &&& (final(source_ref).is_none() ==> s1.eof_seen)
                            &&& match size_limit {
                                Some(l) => if total_read >= l { s1 == s0 && *final(source_ref) == *old(source_ref) }
                                           else { s1.pos - s0.pos <= l - total_read && (s1.pos > s0.pos || final(source_ref).is_none()) },
                                None => s1.pos > s0.pos || final(source_ref).is_none(),
                            }
                        },
                        Err(e) => final(dest)@ == old(dest)@ && s1 == s0 && e.kind != io::ErrorKind::TimedOut,
                    }
                }),
//@end

//@fn raw[unix]::RawCommunicator::read_into world=mut
//@attr #[verifier::loop_isolation(false)]
            requires
                comm_wf(*old(self), old(w).s),
                old(w).s.deadline == dl(deadline),
                old(outvec)@.len() + old(errvec)@.len() + remaining(old(w).s.sout) + remaining(old(w).s.serr) <= usize::MAX,
            ensures
                comm_wf(*final(self), final(w).s),
                final(w).s.deadline == old(w).s.deadline,
                final(self).stdout == old(self).stdout, final(self).stderr == old(self).stderr,
                final(w).s.sout.data == old(w).s.sout.data, final(w).s.serr.data == old(w).s.serr.data,
                final(w).s.sin.intended == old(w).s.sin.intended,
                // every byte taken from a pipe is appended, once, in order, to the vector of that stream
                final(outvec)@ == old(outvec)@ + consumed(old(w).s.sout, final(w).s.sout), //[C02,C03]
                final(errvec)@ == old(errvec)@ + consumed(old(w).s.serr, final(w).s.serr), //[C02,C03]
                old(self).stdout.is_none() ==> final(w).s.sout == old(w).s.sout, //[C02]
                old(self).stderr.is_none() ==> final(w).s.serr == old(w).s.serr, //[C02]
                // the limit bounds what this call adds
                size_limit.is_some() ==> final(outvec)@.len() + final(errvec)@.len() <= (if old(outvec)@.len() + old(errvec)@.len() >= size_limit.unwrap() { old(outvec)@.len() + old(errvec)@.len() } else { size_limit.unwrap() as nat }), //[C03]
                // a successful return below the limit means every stream is finished and stdin is closed
                r.is_ok() && (size_limit.is_none() || final(outvec)@.len() + final(errvec)@.len() < size_limit.unwrap()) ==>
                    final(self).stdin.is_none() && !live(final(w).s, 0) && !live(final(w).s, 1) && !live(final(w).s, 2), //[C01,C02,C03]
                // stdin is closed exactly when the whole input has been accepted
                final(self).stdin.is_none() && old(self).stdin.is_some() ==> final(w).s.sin.accepted == final(w).s.sin.intended, //[C02]
                // timeouts are truthful
                r.is_err() && r->Err_0.kind == io::ErrorKind::TimedOut ==> deadline.is_some() && final(w).s.now + 1_000_000 > deadline.unwrap().t, //[C04]
//@loop 0
                invariant
                    comm_wf(*self, w.s),
                    w.s.deadline == dl(deadline),
                    self.stdout == old(self).stdout, self.stderr == old(self).stderr,
                    old(self).stdin.is_none() ==> self.stdin.is_none(),
                    w.s.sout.data == old(w).s.sout.data, w.s.serr.data == old(w).s.serr.data, w.s.sin.intended == old(w).s.sin.intended,
                    w.s.sout.pos >= old(w).s.sout.pos, w.s.serr.pos >= old(w).s.serr.pos,
                    stdout_ref.is_some() ==> self.stdout.is_some() && stdout_ref.unwrap().slot@ == 1,
                    stderr_ref.is_some() ==> self.stderr.is_some() && stderr_ref.unwrap().slot@ == 2,
                    stdout_ref.is_none() ==> !live(w.s, 1),
                    stderr_ref.is_none() ==> !live(w.s, 2),
                    self.stdin.is_none() ==> !live(w.s, 0),
                    self.stdin.is_none() && old(self).stdin.is_some() ==> w.s.sin.accepted =~= w.s.sin.intended,
                    outvec@ =~= old(outvec)@ + consumed(old(w).s.sout, w.s.sout),
                    errvec@ =~= old(errvec)@ + consumed(old(w).s.serr, w.s.serr),
                    self.stdout.is_none() ==> w.s.sout == old(w).s.sout,
                    self.stderr.is_none() ==> w.s.serr == old(w).s.serr,
                    outvec@.len() + errvec@.len() + remaining(w.s.sout) + remaining(w.s.serr) <= usize::MAX,
                    size_limit.is_some() ==> outvec@.len() + errvec@.len() <= (if old(outvec)@.len() + old(errvec)@.len() >= size_limit.unwrap() { old(outvec)@.len() + old(errvec)@.len() } else { size_limit.unwrap() as nat }),
                decreases
                    m_in(*self) + m_r(stdout_ref, w.s.sout) + m_r(stderr_ref, w.s.serr), //[C01]
//@end
    }
}
} // verus!
fn main() {}
